package core

import (
	"fmt"
	"strings"

	"github.com/junioryono/godi/v4"
	"github.com/junioryono/godi/v4/verifh/pool"
)

// Slot specs: for every constructor with an unusual way of declaring dependencies (parameter
// objects with embedded fields, two fields of one Go type, name+group tags, repeated
// parameters, tags with spaces, ignored/unexported neighbours, multi-output constructors with
// dependencies ...) and for every LIVE dependency slot of it, minimal registration sets in
// which exactly that slot decides the verdict:
//
//	valid    every slot served, one lifetime for all                       -> Build succeeds, slot filled
//	captive  consumer singleton/transient, the slot's provider scoped      -> lifetime conflict
//	missing  every slot served except this one                             -> missing dependency (unless optional/group)
//	cycle    the slot's provider depends on the consumer's first output    -> circular dependency
//
// The expected verdict is never written down here: each property runs the specs through its
// usual executor and oracle, which take it from the reference model. What this adds is the
// guarantee that every (declaration form x validation) pair is exercised through every slot
// position, whatever the random generator happens to draw.
type SlotSpec struct {
	Spec     *Spec
	Variant  string
	Consumer string
	Slot     int
}

var slotConsumerNames = []string{
	"InNG_K0", "InNG_S4", "InKK_K0", "InKU_K0", "InUK_K2", "InAnon_K0", "InAnon_S4", "InAnon_K2",
	"InSp_K0", "InGG_K0", "InSG_K0", "TwiceIn_K2", "Twice_K0", "Twice_S4", "InIgn_K0", "InIgn_S4",
	"InEmb_K0", "InEmb_S4", "InEmb_K2", "InEmb_S5", "VoidIn", "MR_K0K1_d", "OutP_K2K3_d", "MR_K2K3e",
	"RetI_K1", "BIdep_S6", "InLast_K0", "InLast_S4", "OutLast_K2K3", "InIgnMid_K0", "InIgnMid_S4", "CloDep_K2_a", "CloDep_K2_b", "CloIn_K3_a", "CloIn_K3_b",
	"InPtr_K0", "InPtr_S4", "InPtr_K2", "OutPtr_K2K3",
}

type slotIdent struct{ T, Key, Group string }

// SlotSpecs builds the catalogue (deterministic, independent of the seed).
func SlotSpecs() []SlotSpec {
	var out []SlotSpec
	for _, name := range slotConsumerNames {
		meta := pool.ByName(name)
		out = append(out, slotSpecsFor(meta)...)
	}
	return out
}

func slotSpecsFor(meta *pool.Meta) []SlotSpec {
	// identities the consumer needs, in slot order, deduplicated
	var idents []slotIdent
	identOf := map[int]int{} // slot -> index into idents
	for j, d := range meta.Deps {
		if d.IsInert() || (d.IsBuiltin() && d.Key == "" && d.Group == "") {
			continue
		}
		id := slotIdent{d.Target, d.Key, d.Group}
		if d.Group != "" {
			id.Key = "" // a group field is served by the group, whatever else it is tagged with
		}
		found := -1
		for k, x := range idents {
			if x == id {
				found = k
			}
		}
		if found < 0 {
			idents = append(idents, id)
			found = len(idents) - 1
		}
		identOf[j] = found
	}
	if len(idents) == 0 {
		return nil
	}
	outTypes := map[string]bool{}
	for _, o := range meta.Outs {
		outTypes[o.Type] = true
		outTypes[o.Impl] = true
	}
	leafUsed := map[string]int{}
	leaf := func(concrete string) string {
		n := leafUsed[concrete]
		leafUsed[concrete]++
		if n > 2 {
			return ""
		}
		return "Leaf_" + concrete + []string{"_a", "_b", "_c"}[n]
	}
	// providers[k]: the registrations serving idents[k]
	providers := make([][]Reg, len(idents))
	for k, id := range idents {
		concrete := id.T
		var opts []func(*Reg)
		if ti := pool.Types[id.T]; ti.Iface {
			concrete = ""
			for _, impl := range ti.Impl {
				if !outTypes[impl] && typeIndex[impl] < 4 { // a K type that is not the consumer's own
					concrete = impl
					break
				}
			}
			if concrete == "" {
				return nil
			}
			opts = append(opts, withAs(id.T))
		}
		if outTypes[concrete] {
			return nil // self-dependency: not a slot case
		}
		if id.Key != "" {
			opts = append(opts, withName(id.Key))
		}
		n := 1
		if id.Group != "" {
			opts = append(opts, withGroup(id.Group))
			n = 2
		}
		for x := 0; x < n; x++ {
			l := leaf(concrete)
			if l == "" {
				if x == 0 {
					return nil
				}
				break
			}
			providers[k] = append(providers[k], mkReg(l, godi.Scoped, opts...))
		}
	}
	var memberLife func(k, x int) (godi.Lifetime, bool) // optional per-member override
	assemble := func(consumerLife godi.Lifetime, lifeOf func(k int) godi.Lifetime, skip int, replace map[int][]Reg) *Spec {
		s := &Spec{}
		for k := range idents {
			if k == skip {
				continue
			}
			regs := providers[k]
			if r, ok := replace[k]; ok {
				regs = r
			}
			for x, r := range regs {
				r.Life = lifeOf(k)
				if memberLife != nil {
					if l, ok := memberLife(k, x); ok {
						r.Life = l
					}
				}
				s.Regs = append(s.Regs, r)
			}
		}
		cons := Reg{Ctor: meta.ID, Life: consumerLife}
		// the consumer goes first half of the time (registration order must not matter)
		if meta.ID%2 == 0 {
			s.Regs = append([]Reg{cons}, s.Regs...)
		} else {
			s.Regs = append(s.Regs, cons)
		}
		return s
	}
	var out []SlotSpec
	add := func(s *Spec, variant string, slot int) {
		out = append(out, SlotSpec{Spec: s, Variant: variant, Consumer: meta.Name, Slot: slot})
	}
	for _, l := range allLifetimes {
		l := l
		add(assemble(l, func(int) godi.Lifetime { return l }, -1, nil), "valid", -1)
	}
	firstOut := ""
	if len(meta.Outs) > 0 {
		firstOut = meta.Outs[0].Impl
	}
	for j := range meta.Deps {
		k, live := identOf[j]
		if !live {
			continue
		}
		// the same identity reached through several slots is one case (the first slot names it)
		first := true
		for j2 := 0; j2 < j; j2++ {
			if k2, ok := identOf[j2]; ok && k2 == k {
				first = false
			}
		}
		if !first {
			continue
		}
		for _, cl := range []godi.Lifetime{godi.Singleton, godi.Transient} {
			add(assemble(cl, func(x int) godi.Lifetime {
				if x == k {
					return godi.Scoped
				}
				return godi.Singleton
			}, -1, nil), "captive", j)
		}
		// a group with members of different lifetimes: one scoped member next to a transient or
		// singleton one, in both orders, is captive all the same
		if idents[k].Group != "" && len(providers[k]) >= 2 {
			for _, cl := range []godi.Lifetime{godi.Singleton, godi.Transient} {
				for _, other := range []godi.Lifetime{godi.Transient, godi.Singleton} {
					for pos := 0; pos < 2; pos++ {
						kk, pp, oo := k, pos, other
						memberLife = func(k2, x int) (godi.Lifetime, bool) {
							if k2 != kk {
								return 0, false
							}
							if x == pp {
								return godi.Scoped, true
							}
							return oo, true
						}
						add(assemble(cl, func(int) godi.Lifetime { return godi.Singleton }, -1, nil), "captive", j)
						memberLife = nil
					}
				}
			}
		}
		for _, l := range []godi.Lifetime{godi.Scoped, godi.Singleton} {
			l := l
			add(assemble(l, func(int) godi.Lifetime { return l }, k, nil), "missing", j)
		}
		// cycle: a K-typed provider that takes the consumer's first output
		id := idents[k]
		concrete := id.T
		if len(providers[k]) > 0 {
			concrete = pool.Ctors[providers[k][0].Ctor].Outs[0].Impl
		}
		if strings.HasPrefix(concrete, "K") && strings.HasPrefix(firstOut, "K") && concrete != firstOut {
			back := mkReg(fmt.Sprintf("PosA_%d_%d", typeIndex[concrete], 1<<typeIndex[firstOut]), godi.Scoped)
			back.Name, back.Group, back.As = providers[k][0].Name, providers[k][0].Group, providers[k][0].As
			repl := []Reg{back}
			if id.Group != "" && len(providers[k]) > 1 {
				// the cycle closes through the LAST member of the group
				repl = []Reg{providers[k][0], back}
			}
			for _, l := range allLifetimes {
				l := l
				add(assemble(l, func(int) godi.Lifetime { return l }, -1, map[int][]Reg{k: repl}), "cycle", j)
			}
		}
	}
	return out
}

// runSlotSpecs feeds the catalogue's specs of the wanted variants through a property's own
// executor (one journaled case each).
func runSlotSpecs(cr *caseRunner, want map[string]bool, exec func(idx int, s *Spec, m *Model, kind string), end func(idx int, s *Spec)) {
	for _, ss := range SlotSpecs() {
		if !want[ss.Variant] {
			continue
		}
		idx, mine := cr.next()
		if !mine {
			continue
		}
		cr.c.R.Begin(idx)
		m := NewModel(ss.Spec)
		cr.c.R.Count("slot_specs", 1)
		cr.c.R.Count("slot_specs_model_"+m.Class.String(), 1)
		exec(idx, ss.Spec, m, fmt.Sprintf("slot:%s:%s#%d", ss.Variant, ss.Consumer, ss.Slot))
		if end != nil {
			end(idx, ss.Spec)
		}
	}
}

// FormSpecs: every special constructor form of the pool (result objects with one / several /
// ignored / grouped fields, multi-return, parameter objects of every flavour, closures, built-in
// holders, initializers ...) as a minimal VALID registration set in each of the three lifetimes:
// the constructor plus leaf providers for its live dependencies, all of one lifetime. The
// lifetime-specific properties (C01 singleton, C02 scoped, C03 transient, C10 disposal) run the
// whole catalogue through their usual executor and oracle, so that no declaration form depends on
// what the random generator happens to draw for that lifetime.
func FormSpecs() []SlotSpec {
	var out []SlotSpec
	names := append(append([]string{}, specialNames...), outGroupNames...)
	for _, name := range names {
		meta := pool.ByName(name)
		if meta == nil {
			panic("FormSpecs: unknown constructor " + name)
		}
		var got []SlotSpec
		for _, ss := range slotSpecsFor(meta) {
			if ss.Variant == "valid" {
				got = append(got, ss)
			}
		}
		if len(got) == 0 {
			live := false
			for _, d := range meta.Deps {
				if !(d.IsInert() || (d.IsBuiltin() && d.Key == "" && d.Group == "")) {
					live = true
				}
			}
			if live {
				continue // a form the slot catalogue cannot serve (self-dependency, no free leaf)
			}
			for _, l := range allLifetimes {
				got = append(got, SlotSpec{Spec: &Spec{Regs: []Reg{{Ctor: meta.ID, Life: l}}}, Variant: "valid", Consumer: meta.Name, Slot: -1})
			}
		}
		for _, ss := range got {
			if NewModel(ss.Spec).Class == ClsOK {
				ss.Variant = "form"
				out = append(out, ss)
			}
		}
	}
	return out
}

// FormLifetime is the lifetime of the consumer of a form spec.
func (ss SlotSpec) FormLifetime() godi.Lifetime {
	for _, r := range ss.Spec.Regs {
		if !r.Remove && r.Ctor >= 0 && pool.Ctors[r.Ctor].Name == ss.Consumer {
			return r.Life
		}
	}
	return godi.Singleton
}

// SwapSpecs: "swap a service for another one" between two Builds of one collection - the
// documented Remove + Add sequence - so that the collection holds the SAME NUMBER of
// registrations at both Builds and only the replaced registration differs: another constructor,
// and another lifetime (every ordered pair). The consumer reaches the service through a plain
// parameter, a keyed / aliased / optional parameter-object field. Half of the specs keep the
// first provider alive. wantConflict=false: the consumer is scoped, every final set is valid;
// wantConflict=true: the consumer is a singleton / transient and the replacement is scoped - the
// second Build must refuse what the first one accepted.
func SwapSpecs(wantConflict bool) []*Spec {
	type form struct {
		consumer string
		opt      func(*Reg)
		rmType   string
		rmKey    string
	}
	forms := []form{
		{"PosA_0_2", nil, "K1", ""},
		{"InU_0_2_Keyed", withName("k"), "K1", "k"},
		{"InU_0_2_Iface", withAs("IK1"), "IK1", ""},
		{"InU_0_2_Opt", nil, "K1", ""},
	}
	var out []*Spec
	for _, f := range forms {
		for _, l1 := range allLifetimes {
			for _, l2 := range allLifetimes {
				if l1 == l2 {
					continue
				}
				consumerLives := []godi.Lifetime{godi.Scoped}
				if wantConflict {
					if l2 != godi.Scoped {
						continue
					}
					consumerLives = []godi.Lifetime{godi.Singleton, godi.Transient}
				}
				for _, cl := range consumerLives {
					for _, keep := range []bool{false, true} {
						var o1, o2 []func(*Reg)
						if f.opt != nil {
							o1, o2 = []func(*Reg){f.opt}, []func(*Reg){f.opt}
						}
						s := &Spec{RebuildAfter: 3, KeepSibling: keep, Regs: []Reg{
							mkReg("Leaf_S0_a", godi.Singleton), // a bystander
							mkReg("Leaf_K1_a", l1, o1...),
							mkReg(f.consumer, cl),
							{Remove: true, RmType: f.rmType, RmKey: f.rmKey, Tail: true},
							tailReg(mkReg("Leaf_K1_b", l2, o2...)),
						}}
						if wantConflict && l1 == godi.Scoped {
							continue
						}
						out = append(out, s)
					}
				}
			}
		}
	}
	return out
}
