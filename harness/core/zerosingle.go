package core

import (
	"fmt"

	"github.com/junioryono/godi/v4"
	"github.com/junioryono/godi/v4/verifh/eng"
)

// Single-result constructors of VALUE types whose result is the zero value - typically a small
// struct that only carries its optional dependencies, none of which is registered. C08: "Build
// succeeds on every registration set that has no cycle, no lifetime conflict, no missing required
// dependency and whose eagerly run constructors succeed: missing optional dependencies ... never
// make it fail", and what Build accepted is resolvable from a fresh scope. A zero struct, 0, "",
// false are values; only nil means "nothing produced".

type zsLogger struct{}
type zsTracer struct{}
type ZsTelemetry struct {
	L *zsLogger
	T *zsTracer
}
type zsTelIn struct {
	godi.In
	L *zsLogger `optional:"true"`
	T *zsTracer `optional:"true"`
}
type ZsCount int
type ZsLabel string
type ZsFlag bool
type ZsPair [2]int
type zsUser struct {
	tel ZsTelemetry
	n   ZsCount
}

// RunZeroSingleResults runs the catalogue for C08.
func RunZeroSingleResults(c *eng.Ctx, next func() (int, bool)) {
	for _, served := range []int{0, 1, 2} { // how many of the optional dependencies are registered
		for _, life := range allLifetimes {
			idx, mine := next()
			if !mine {
				continue
			}
			c.R.Begin(idx)
			feat := fmt.Sprintf("%s:%d-of-2-optional-dependencies-registered", lifeName(life), served)
			viol := func(clause, detail string) {
				c.R.Violation(eng.Violation{Prop: "C08", Clause: clause, Sig: "C08/" + clause + ":value-typed-single-result:" + feat, Case: idx, CaseID: "zero-single-result-" + feat,
					Detail: feat + ": " + detail, Replay: map[string]any{"fixture": "zero-single-results", "lifetime": lifeName(life), "served": served}})
			}
			func() {
				defer func() {
					if p := recover(); p != nil {
						viol("api-call-panics", fmt.Sprintf("panic: %v", p))
					}
				}()
				coll := godi.NewCollection()
				adds := []error{
					eqAdd(coll, life, func(in zsTelIn) ZsTelemetry { return ZsTelemetry{in.L, in.T} }),
					eqAdd(coll, life, func() ZsCount { return 0 }),
					eqAdd(coll, life, func() (ZsLabel, error) { return "", nil }),
					eqAdd(coll, life, func() ZsFlag { return false }),
					eqAdd(coll, life, func() ZsPair { return ZsPair{} }),
					eqAdd(coll, life, func(t ZsTelemetry, n ZsCount) *zsUser { return &zsUser{t, n} }),
				}
				if served >= 1 {
					adds = append(adds, eqAdd(coll, life, func() *zsLogger { return &zsLogger{} }))
				}
				if served >= 2 {
					adds = append(adds, eqAdd(coll, life, func() *zsTracer { return &zsTracer{} }))
				}
				for _, err := range adds {
					if err != nil {
						c.R.Inconclusive(idx, "fixture registration refused: "+err.Error())
						return
					}
				}
				prov, err := coll.Build()
				c.R.Count("zero_single_result_builds", 1)
				if err != nil {
					viol("buildable-set-rejected", fmt.Sprintf("Build failed on a set without cycle, conflict or missing required dependency whose constructors all succeed (a value-typed result equal to its zero value is a value): %v", trimErr(err)))
					return
				}
				defer prov.Close()
				sc, err := prov.CreateScope(nil)
				if err != nil {
					viol("accepted-not-resolvable", fmt.Sprintf("CreateScope: %v", trimErr(err)))
					return
				}
				defer sc.Close()
				if v, err := godi.Resolve[ZsTelemetry](sc); err != nil || (v.L != nil) != (served >= 1) || (v.T != nil) != (served >= 2) {
					viol("accepted-not-resolvable", fmt.Sprintf("Resolve[ZsTelemetry] = %+v, %v", v, trimErr(err)))
				}
				if v, err := godi.Resolve[ZsCount](sc); err != nil || v != 0 {
					viol("accepted-not-resolvable", fmt.Sprintf("Resolve[ZsCount] = %v, %v", v, trimErr(err)))
				}
				if v, err := godi.Resolve[ZsLabel](sc); err != nil || v != "" {
					viol("accepted-not-resolvable", fmt.Sprintf("Resolve[ZsLabel] = %q, %v", v, trimErr(err)))
				}
				if v, err := godi.Resolve[ZsFlag](sc); err != nil || v {
					viol("accepted-not-resolvable", fmt.Sprintf("Resolve[ZsFlag] = %v, %v", v, trimErr(err)))
				}
				if v, err := godi.Resolve[ZsPair](sc); err != nil || v != (ZsPair{}) {
					viol("accepted-not-resolvable", fmt.Sprintf("Resolve[ZsPair] = %v, %v", v, trimErr(err)))
				}
				if u, err := godi.Resolve[*zsUser](sc); err != nil || u == nil {
					viol("accepted-not-resolvable", fmt.Sprintf("the consumer of the value-typed services cannot be resolved: %v", trimErr(err)))
				}
				c.R.Count("zero_single_result_resolutions", 6)
			}()
			c.R.End(idx, eng.Hash("c08-zero-single", int(life), served), true)
		}
	}
}
