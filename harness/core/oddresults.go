package core

import (
	"errors"
	"fmt"

	"github.com/junioryono/godi/v4"
	"github.com/junioryono/godi/v4/verifh/eng"
)

// Result lists the container accepts beyond (T), (T, error), (Out) and (Out, error).
//
// Registration accepts any function; what its results mean is decided by the analysis: a
// result object as FIRST result makes its fields the services, whatever follows; otherwise
// every non-error result is a service and an error in last position is the constructor's
// error. Whatever the shape, when the LAST result is an error and the constructor returns a
// non-nil one, "a constructor that ... returns an error is reported as an error ... wrapping
// the constructor's own error" - it is not dropped because the list is longer than usual.

type orA struct{ n int }
type orB struct{ n int }
type orC struct{ n int }
type orRes struct {
	godi.Out
	A *orA
}

var errOddBoom = errors.New("odd-results: the constructor's own error")

type orWorld struct{ fail bool }

var orCur *orWorld

func orErr() error {
	if orCur.fail {
		return errOddBoom
	}
	return nil
}

func orOutThenPtrErr() (orRes, *orB, error)  { return orRes{A: &orA{1}}, &orB{1}, orErr() }
func orOutErr() (orRes, error)               { return orRes{A: &orA{1}}, orErr() }
func orThreeErr() (*orA, *orB, *orC, error)  { return &orA{1}, &orB{1}, &orC{1}, orErr() }
func orPtrOutThenErr() (*orRes, *orB, error) { return &orRes{A: &orA{1}}, &orB{1}, orErr() }

// RunOddResultLists: forms x lifetimes x {the constructor fails, control}.
func RunOddResultLists(c *eng.Ctx, next func() (int, bool)) {
	forms := []struct {
		name string
		fn   any
	}{
		{"(Out,T,error)", orOutThenPtrErr},
		{"(Out,error)", orOutErr},
		{"(T,T,T,error)", orThreeErr},
		{"(*Out,T,error)", orPtrOutThenErr},
	}
	for _, f := range forms {
		for _, life := range []godi.Lifetime{godi.Singleton, godi.Scoped, godi.Transient} {
			for _, fail := range []bool{true, false} {
				idx, mine := next()
				if !mine {
					continue
				}
				c.R.Begin(idx)
				feat := f.name + ":" + lifeName(life)
				viol := func(clause, detail string) {
					c.R.Violation(eng.Violation{Prop: "C15", Clause: clause, Sig: "C15/" + clause + ":result-list:" + feat, Case: idx, CaseID: fmt.Sprintf("odd-result-list-%s-%v", feat, fail),
						Detail: feat + ": " + detail, Replay: map[string]any{"fixture": "odd-result-lists", "form": f.name, "lifetime": lifeName(life), "constructor_fails": fail}})
				}
				func() {
					defer func() {
						if p := recover(); p != nil {
							viol("api-call-panics", fmt.Sprintf("panic: %v", p))
						}
					}()
					orCur = &orWorld{fail: fail}
					coll := godi.NewCollection()
					if err := eqAdd(coll, life, f.fn); err != nil {
						// a registration that is refused promises nothing
						c.R.Count("odd_result_list_refused", 1)
						return
					}
					c.R.Count("odd_result_list_cases", 1)
					prov, err := coll.Build()
					if err == nil {
						defer prov.Close()
						var sc godi.Scope
						if sc, err = prov.CreateScope(nil); err == nil {
							defer sc.Close()
							_, err = godi.Resolve[*orA](sc)
						}
					}
					switch {
					case fail && err == nil:
						viol("ctor-error-swallowed", "the constructor returned a non-nil error as its last result; Build, CreateScope and Resolve[*orA] all succeeded")
					case fail && !errors.Is(err, errOddBoom):
						viol("ctor-error-not-wrapped", fmt.Sprintf("the constructor's own error is not reachable with errors.Is from: %v", trimErr(err)))
					case !fail && err != nil:
						viol("spurious-error", fmt.Sprintf("the constructor returned a nil error: %v", trimErr(err)))
					}
				}()
				c.R.End(idx, eng.Hash("c15-odd-results", feat, fail), true)
			}
		}
	}
}
