package core

import (
	"context"
	"fmt"

	"github.com/junioryono/godi/v4"
	"github.com/junioryono/godi/v4/verifh/eng"
)

// A singleton constructor that uses the injected Provider while Build is still running.
//
// `func NewWarmer(p godi.Provider)` opens a temporary scope and resolves - best effort - a
// singleton that sits deeper in the build order and has not been built yet. Whatever that early
// request returns (today: "singleton not initialized"), the deeper singleton is a singleton: when
// it is constructed it receives the provider's ROOT scope and its context, not the temporary
// scope of whoever asked first, and everybody gets that one instance.

type wuKey struct{}
type wuCfgB struct{}
type wuCfgA struct{ b *wuCfgB }
type wuPool struct {
	sc  godi.Scope
	ctx context.Context
	p   godi.Provider
	n   int
}
type wuWarmer struct{ early *wuPool }

var wuPools int

func wuNewCfgB() *wuCfgB          { return &wuCfgB{} }
func wuNewCfgA(b *wuCfgB) *wuCfgA { return &wuCfgA{b} }
func wuNewPool(sc godi.Scope, ctx context.Context, p godi.Provider, a *wuCfgA) *wuPool {
	wuPools++
	return &wuPool{sc: sc, ctx: ctx, p: p, n: wuPools}
}
func wuNewWarmer(p godi.Provider) *wuWarmer {
	w := &wuWarmer{}
	tmp, err := p.CreateScope(context.WithValue(context.Background(), wuKey{}, "warm-up"))
	if err != nil {
		return w
	}
	if pool, err := godi.Resolve[*wuPool](tmp); err == nil {
		w.early = pool
	}
	_ = tmp.Close()
	return w
}

func RunWarmup(c *eng.Ctx, next func() (int, bool)) {
	for variant := 0; variant < 6; variant++ {
		idx, mine := next()
		if !mine {
			continue
		}
		c.R.Begin(idx)
		viol := func(clause, detail string) {
			c.R.Violation(eng.Violation{Prop: "C18", Clause: clause, Sig: "C18/" + clause + ":singleton-requested-from-a-temporary-scope-during-Build", Case: idx, CaseID: fmt.Sprintf("warmup-%d", variant), Detail: detail,
				Replay: map[string]any{"fixture": "warmup", "variant": variant}})
		}
		func() {
			defer func() {
				if p := recover(); p != nil {
					viol("panic", fmt.Sprintf("panic: %v", p))
				}
			}()
			wuPools = 0
			coll := godi.NewCollection()
			ctors := []any{wuNewWarmer, wuNewCfgB, wuNewCfgA, wuNewPool}
			// registration order varies; the build order follows the dependency levels
			for i := range ctors {
				if err := coll.AddSingleton(ctors[(i+variant)%len(ctors)]); err != nil {
					c.R.Inconclusive(idx, "warm-up fixture registration refused: "+err.Error())
					return
				}
			}
			prov, err := coll.Build()
			if err != nil {
				c.R.Inconclusive(idx, "warm-up fixture does not build: "+err.Error())
				return
			}
			defer prov.Close()
			root, _ := godi.Resolve[godi.Scope](prov)
			pool, err := godi.Resolve[*wuPool](prov)
			if err != nil || pool == nil {
				viol("singleton-unavailable", fmt.Sprintf("Resolve[*pool] after Build: %v", err))
				return
			}
			warmer, _ := godi.Resolve[*wuWarmer](prov)
			c.R.Count("warmup_cases", 1)
			if wuPools != 1 {
				viol("ctor-count", fmt.Sprintf("the singleton pool was constructed %d times", wuPools))
			}
			if warmer != nil && warmer.early != nil && warmer.early != pool {
				viol("identity", "the early requester got another instance than the provider serves")
			}
			if pool.sc != root {
				viol("injected-scope-wrong", fmt.Sprintf("the singleton received scope %v, the root scope is %v", pool.sc, root))
			}
			if pool.p != prov {
				viol("injected-provider-wrong", "the singleton did not receive the root provider")
			}
			if pool.ctx == nil || pool.ctx.Err() != nil {
				viol("injected-context-wrong", fmt.Sprintf("the singleton's context is done (%v) while the provider is open", pool.ctx.Err()))
			} else if v := pool.ctx.Value(wuKey{}); v != nil {
				viol("injected-context-wrong", fmt.Sprintf("the singleton's context carries the value %q of the temporary scope's context", v))
			} else if got, err := godi.FromContext(pool.ctx); err != nil || got != root {
				viol("fromcontext-wrong", fmt.Sprintf("FromContext on the singleton's context returns %v, %v; want the root scope", got, err))
			}
		}()
		c.R.End(idx, eng.Hash("c18-warmup", variant), true)
	}
}
