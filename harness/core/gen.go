package core

import (
	"fmt"
	"math/rand"
	"sort"
	"strings"

	"github.com/junioryono/godi/v4"
	"github.com/junioryono/godi/v4/verifh/pool"
)

// GenOpts steers the random spec generator.
type GenOpts struct {
	Want       Class // desired model class (ClsOK: valid sets)
	AnyClass   bool  // accept whatever class comes out
	MaxTypes   int
	Specials   bool // multi-return, Out structs, initializers, built-in consumers, decoys, ...
	Values     bool // instance values
	MultiAlias bool // registrations with >= 2 As aliases (open finding D6)
	MultiOpt   bool // multi-return + Name/Group (open finding D8)
	OutGroup   bool // Out structs with group fields (open finding D9)
	Lifetimes  []godi.Lifetime
	OnlyK      bool // only the K core types
	Removes    bool // append Remove / RemoveKeyed (+ re-Add) steps at the tail
	Rebuild    bool // build the collection once in the middle of the registration steps
	Sibling    bool // with Rebuild: the intermediate provider is kept alive in half of the specs
}

var allLifetimes = []godi.Lifetime{godi.Singleton, godi.Scoped, godi.Transient}

var typeIndex = func() map[string]int {
	m := map[string]int{}
	for i, t := range pool.TypeNames {
		m[t] = i
	}
	return m
}()

// candidates lists the single-output constructors producing type t.
var candidates = func() map[string][]int {
	m := map[string][]int{}
	for i := range pool.Ctors {
		c := &pool.Ctors[i]
		if c.Void || c.ResultObj || len(c.Outs) != 1 {
			continue
		}
		switch c.Family {
		case "posA", "posB", "inU", "inM", "S":
			m[c.Outs[0].Type] = append(m[c.Outs[0].Type], i)
		case "special":
			if len(c.Name) > 5 && c.Name[:5] == "Leaf_" {
				m[c.Outs[0].Type] = append(m[c.Outs[0].Type], i)
			}
		}
	}
	return m
}()

var specialNames = []string{
	"MR_K0K1", "MR_K0K1_d", "MR_K0K1e", "MR_K2K3e", "MR_S0S4", "MR_S1S2S5e", "MR_S6S7", "MR_K0S0", "MR_K1S1e",
	"OutP_K0K1", "OutP_K2K3_d", "OutN_K0K1", "OutNN_K0K0", "OutE_S0S4", "OutS_S1S5", "OutIgn_K0", "OutI_K2", "OutP_K0S0",
	"Void0", "Void0b", "VoidK0", "VoidK1", "VoidS0", "VoidS4", "VoidScope", "VoidIn", "ErrOnly0", "ErrOnly0b", "ErrOnlyK1", "ErrOnlyS1", "ErrOnlyK2K3",
	"BIpos_K0", "BIin_K1", "BIpos_K2", "BIin_K3", "BIpos_S0", "BIin_S4", "BIpos_S5", "BIin_S5", "BIdep_S6", "BIkeyedOpt_S7",
	"Twice_K0", "Twice_S4", "TwiceIn_K2", "InIgn_K0", "InIgn_S4", "RetI_K0", "RetI_K1", "NewDec0", "NewDec1", "NewDec2",
	"InEmb_K0", "InEmb_S4", "InEmb_K2", "InEmb_S5",
	"InSp_K0", "InGG_K0", "InSG_K0", "InNG_K0", "InNG_S4", "InKK_K0", "InKU_K0", "InUK_K2", "InAnon_K0", "InAnon_S4", "InAnon_K2",
	"BIopt_S6", "BIopt_K3", "BIanon_S6", "BIanon_K3",
	"InLast_K0", "InLast_S4", "OutLast_K2K3", "OutLast_S5S6", "InIgnMid_K0", "InIgnMid_S4", "OutIgnMid_K2K3", "OutIgnMid_S5S6",
	"Clo_K0_a", "Clo_K0_b", "Clo_K0_c", "Clo_K1_a", "Clo_K1_b", "Clo_K1_c", "Clo_S0_a", "Clo_S0_b", "Clo_S4_a", "Clo_S4_b", "CloDep_K2_a", "CloDep_K2_b", "CloIn_K3_a", "CloIn_K3_b",
	"InPtr_K0", "InPtr_S4", "InPtr_K2", "OutPtr_K2K3", "OutPtr_S5S6", "OutPtr_K0K1",
	"Out1_K0k", "Out1_K1e", "Out1_K2g", "Out1_S5", "Out1_S0p",
}

var outGroupNames = []string{"OutG_K0K1", "OutGG_K0"}

// depOK reports whether dependency d of a prospective consumer with lifetime life is
// satisfiable / harmless in the current model m.
func depOK(m *Model, d pool.Dep, life godi.Lifetime, strict bool) bool {
	if d.IsInert() || (d.IsBuiltin() && d.Key == "" && d.Group == "") {
		return true
	}
	var targets []Provided
	if d.Group != "" {
		targets = m.Groups[GroupKey{d.Target, d.Group}]
	} else if p, ok := m.Services[IdentKey{d.Target, d.Key}]; ok {
		targets = []Provided{p}
	} else if !d.Optional {
		return !strict
	}
	if life != godi.Scoped {
		for _, t := range targets {
			if m.Regs[t.Reg].Life == godi.Scoped && strict {
				return false
			}
		}
	}
	return true
}

// GenSpec generates a random spec; it returns nil when no spec of the wanted class was found.
func GenSpec(rng *rand.Rand, o GenOpts) (*Spec, *Model) {
	for attempt := 0; attempt < 60; attempt++ {
		s := genOnce(rng, o)
		m := NewModel(s)
		if o.AnyClass || m.Class == o.Want {
			return s, m
		}
	}
	return nil, nil
}

func genOnce(rng *rand.Rand, o GenOpts) *Spec {
	lifes := o.Lifetimes
	if len(lifes) == 0 {
		lifes = allLifetimes
	}
	strict := o.Want == ClsOK && !o.AnyClass
	maxT := o.MaxTypes
	if maxT == 0 {
		maxT = 8
	}
	names := pool.TypeNames
	if o.OnlyK {
		names = names[:4]
	}
	if maxT > len(names) {
		maxT = len(names)
	}
	nT := 2 + rng.Intn(maxT-1)
	chosen := map[string]bool{}
	for _, i := range rng.Perm(len(names))[:nT] {
		chosen[names[i]] = true
	}
	s := &Spec{}
	used := map[int]bool{}
	cur := NewModel(s)
	add := func(r Reg) {
		s.Regs = append(s.Regs, r)
		if r.Ctor >= 0 {
			used[r.Ctor] = true
		}
		cur = NewModel(s)
	}
	// specials first (they occupy plain identities of their output types)
	if o.Specials {
		pool2 := append([]string{}, specialNames...)
		if o.OutGroup {
			pool2 = append(pool2, outGroupNames...)
		}
		n := rng.Intn(4)
		for k := 0; k < n; k++ {
			meta := pool.ByName(pool2[rng.Intn(len(pool2))])
			if used[meta.ID] {
				continue
			}
			life := lifes[rng.Intn(len(lifes))]
			if meta.Void && rng.Intn(3) > 0 {
				life = godi.Scoped // initializers are the interesting void form
			}
			okDeps := true
			for _, d := range meta.Deps {
				if !depOK(cur, d, life, strict) {
					okDeps = false
				}
			}
			if !okDeps && strict {
				continue // may become satisfiable later; retried in the tail pass
			}
			r := Reg{Ctor: meta.ID, Life: life}
			if o.MultiOpt && len(meta.Outs) > 1 && !meta.ResultObj && rng.Intn(3) == 0 {
				if rng.Intn(2) == 0 {
					r.Name = "k"
				} else {
					r.Group = "g"
				}
			}
			trial := NewModel(&Spec{Regs: append(append([]Reg{}, s.Regs...), r)})
			if trial.Regs[len(trial.Regs)-1].Reject != "" && strict {
				continue
			}
			add(r)
		}
	}
	for _, t := range names {
		if !chosen[t] {
			continue
		}
		nId := 1
		if x := rng.Intn(100); x >= 75 && x < 92 {
			nId = 2
		} else if x >= 92 {
			nId = 3
		}
		for k := 0; k < nId; k++ {
			life := lifes[rng.Intn(len(lifes))]
			r := Reg{Life: life}
			// identity form
			switch x := rng.Intn(100); {
			case x < 45:
			case x < 60:
				r.Name = "k"
			case x < 65:
				r.Name = "k2"
			case x < 82:
				r.Group = "g"
			case x < 86:
				r.Group = "h"
			case x < 94:
				r.As = []string{"I" + t}
			case x < 97:
				r.As = []string{"IA"}
				if rng.Intn(2) == 0 {
					r.Group = "g"
				}
			default:
				if o.MultiAlias {
					r.As = []string{"I" + t, "IB"}
				} else {
					r.As = []string{"IB"}
				}
			}
			if o.Values && rng.Intn(12) == 0 {
				r.Ctor = -1
				r.Value = t
			} else {
				cands := candidates[t]
				// weighted pick among admissible constructors
				var adm []int
				var weights []int
				total := 0
				for _, id := range cands {
					if used[id] {
						continue
					}
					meta := &pool.Ctors[id]
					ok := true
					for _, d := range meta.Deps {
						if !depOK(cur, d, life, strict) {
							ok = false
							break
						}
					}
					if !ok {
						continue
					}
					w := 1 + 3*len(meta.Deps)
					adm = append(adm, id)
					weights = append(weights, w)
					total += w
				}
				if len(adm) == 0 {
					continue
				}
				x := rng.Intn(total)
				pick := adm[0]
				for i, w := range weights {
					if x < w {
						pick = adm[i]
						break
					}
					x -= w
				}
				r.Ctor = pick
			}
			trial := NewModel(&Spec{Regs: append(append([]Reg{}, s.Regs...), r)})
			if trial.Regs[len(trial.Regs)-1].Reject != "" {
				continue // would be rejected (duplicate identity); skip in generated specs
			}
			add(r)
		}
	}
	// tail pass: specials whose dependencies are now satisfiable (consumers of the above)
	if o.Specials {
		n := rng.Intn(4)
		for k := 0; k < n; k++ {
			meta := pool.ByName(specialNames[rng.Intn(len(specialNames))])
			if used[meta.ID] {
				continue
			}
			life := lifes[rng.Intn(len(lifes))]
			if meta.Void && rng.Intn(3) > 0 {
				life = godi.Scoped
			}
			ok := true
			for _, d := range meta.Deps {
				if !depOK(cur, d, life, strict) {
					ok = false
				}
			}
			if !ok {
				continue
			}
			r := Reg{Ctor: meta.ID, Life: life}
			trial := NewModel(&Spec{Regs: append(append([]Reg{}, s.Regs...), r)})
			if trial.Regs[len(trial.Regs)-1].Reject != "" {
				continue
			}
			add(r)
		}
	}
	// shuffle registration order, preserving relative order inside each group
	shuffleKeepingGroups(rng, s)
	if o.Removes && rng.Intn(100) < 70 {
		appendRemoves(rng, s, used, lifes)
	}
	if o.Rebuild && len(s.Regs) >= 2 {
		s.RebuildAfter = 1 + rng.Intn(len(s.Regs)-1)
		// half of them: the provider of the intermediate Build lives on next to the observed one
		s.KeepSibling = o.Sibling && rng.Intn(2) == 0
	}
	return s
}

// appendRemoves appends 1-2 Remove/RemoveKeyed steps (biased towards identities of
// registrations that provide several identities, and towards their first output) and, most
// of the time, a re-registration of the removed identity by another constructor — the
// documented "Remove, then add the mock" pattern.
func appendRemoves(rng *rand.Rand, s *Spec, used map[int]bool, lifes []godi.Lifetime) {
	m := NewModel(s)
	type cand struct {
		ik IdentKey
		w  int
	}
	var cands []cand
	for ik, p := range m.Services {
		w := 1
		if n := len(m.Regs[p.Reg].Idents); n > 1 {
			w = 6
			if m.Regs[p.Reg].Idents[0] == ik {
				w = 12
			}
		}
		cands = append(cands, cand{ik, w})
	}
	if len(cands) == 0 {
		return
	}
	// deterministic order
	for i := 1; i < len(cands); i++ {
		for j := i; j > 0 && (cands[j].ik.Type+"\x00"+cands[j].ik.Key) < (cands[j-1].ik.Type+"\x00"+cands[j-1].ik.Key); j-- {
			cands[j], cands[j-1] = cands[j-1], cands[j]
		}
	}
	n := 1 + rng.Intn(2)
	for k := 0; k < n && len(cands) > 0; k++ {
		total := 0
		for _, c := range cands {
			total += c.w
		}
		x := rng.Intn(total)
		pick := 0
		for i, c := range cands {
			if x < c.w {
				pick = i
				break
			}
			x -= c.w
		}
		ik := cands[pick].ik
		cands = append(cands[:pick], cands[pick+1:]...)
		s.Regs = append(s.Regs, Reg{Remove: true, RmType: ik.Type, RmKey: ik.Key, Tail: true})
		if rng.Intn(100) < 65 {
			// re-register the identity with a dependency-free constructor
			concrete := ik.Type
			var as []string
			if ti := pool.Types[ik.Type]; ti.Iface {
				if len(ti.Impl) == 0 {
					continue
				}
				concrete = ti.Impl[rng.Intn(len(ti.Impl))]
				as = []string{ik.Type}
			}
			if typeIndex[concrete] == 0 && concrete != pool.TypeNames[0] {
				continue // decoys have no spare constructors
			}
			// a third of the time, when the removed identity came from an Add call with several
			// outputs: the replacement depends on one of the outputs that stay (the set stays
			// acyclic; whatever the container shares between the outputs of one Add call must
			// not tie the replacement to them)
			if reg := m.Regs[m.Services[ik].Reg]; len(reg.Idents) > 1 && len(as) == 0 && strings.HasPrefix(concrete, "K") && rng.Intn(3) == 0 {
				done := false
				for _, sib := range reg.Idents {
					if sib == ik || sib.Key != "" || !strings.HasPrefix(sib.Type, "K") || sib.Type == concrete {
						continue
					}
					meta := pool.ByName(fmt.Sprintf("PosA_%d_%d", typeIndex[concrete], 1<<typeIndex[sib.Type]))
					if meta == nil || used[meta.ID] {
						continue
					}
					used[meta.ID] = true
					s.Regs = append(s.Regs, Reg{Ctor: meta.ID, Life: reg.Life, Name: ik.Key, Tail: true})
					done = true
					break
				}
				if done {
					continue
				}
			}
			family := "Leaf_"
			if (concrete == "K0" || concrete == "K1" || concrete == "S0" || concrete == "S4") && rng.Intn(2) == 0 {
				family = "Clo_" // another closure of the factory whose closure may just have been removed
			}
			for _, suffix := range []string{"_a", "_b", "_c"} {
				meta := pool.ByName(family + concrete + suffix)
				if used[meta.ID] {
					continue
				}
				used[meta.ID] = true
				s.Regs = append(s.Regs, Reg{Ctor: meta.ID, Life: lifes[rng.Intn(len(lifes))], Name: ik.Key, As: as, Tail: true})
				break
			}
		}
	}
	// RemoveKeyed with an int key that equals the index of a group member of that type: removes nothing
	if rng.Intn(100) < 35 {
		var gks []GroupKey
		for gk := range m.Groups {
			gks = append(gks, gk)
		}
		sort.Slice(gks, func(i, j int) bool { return gks[i].Type+"\x00"+gks[i].Group < gks[j].Type+"\x00"+gks[j].Group })
		if len(gks) > 0 {
			gk := gks[rng.Intn(len(gks))]
			s.Regs = append(s.Regs, Reg{Remove: true, RmType: gk.Type, RmInt: 1 + rng.Intn(len(m.Groups[gk])), Tail: true})
		}
	}
	// after the collection shrank: one more member for an existing group (its place in the group
	// is its identity; anything derived from the size of the collection is stale by now)
	if rng.Intn(100) < 40 {
		var gks []GroupKey
		for gk := range m.Groups {
			if ti, ok := pool.Types[gk.Type]; ok && !ti.Iface && (typeIndex[gk.Type] != 0 || gk.Type == pool.TypeNames[0]) {
				gks = append(gks, gk)
			}
		}
		sort.Slice(gks, func(i, j int) bool { return gks[i].Type+"\x00"+gks[i].Group < gks[j].Type+"\x00"+gks[j].Group })
		if len(gks) > 0 {
			gk := gks[rng.Intn(len(gks))]
			// same lifetime class as the existing members keeps the set valid for every consumer
			life := m.Regs[m.Groups[gk][0].Reg].Life
			for _, suffix := range []string{"_c", "_b", "_a"} {
				meta := pool.ByName("Leaf_" + gk.Type + suffix)
				if used[meta.ID] {
					continue
				}
				used[meta.ID] = true
				s.Regs = append(s.Regs, Reg{Ctor: meta.ID, Life: life, Group: gk.Group, Tail: true})
				break
			}
		}
	}
}

func shuffleKeepingGroups(rng *rand.Rand, s *Spec) {
	// tail steps (Remove / re-Add) keep their place
	nTail := 0
	for nTail < len(s.Regs) && s.Regs[len(s.Regs)-1-nTail].Tail {
		nTail++
	}
	if nTail > 0 {
		tail := append([]Reg{}, s.Regs[len(s.Regs)-nTail:]...)
		prefix := &Spec{Regs: s.Regs[:len(s.Regs)-nTail]}
		shuffleKeepingGroups(rng, prefix)
		s.Regs = append(prefix.Regs, tail...)
		return
	}
	n := len(s.Regs)
	perm := rng.Perm(n)
	out := make([]Reg, n)
	for i, p := range perm {
		out[p] = s.Regs[i]
	}
	// restore original relative order of grouped registrations (per group name + type is
	// implied by order of all grouped regs; keep the global relative order of grouped regs)
	var gpos []int
	var gregs []Reg
	for i, r := range out {
		if groupedReg(r) {
			gpos = append(gpos, i)
		}
	}
	for _, r := range s.Regs {
		if groupedReg(r) {
			gregs = append(gregs, r)
		}
	}
	for i, p := range gpos {
		out[p] = gregs[i]
	}
	s.Regs = out
}

func groupedReg(r Reg) bool {
	if r.Group != "" {
		return true
	}
	if r.Ctor >= 0 {
		for _, o := range pool.Ctors[r.Ctor].Outs {
			if o.Group != "" {
				return true
			}
		}
	}
	return false
}

// ProbeKeys / ProbeGroups are the keys and groups of the identity universe that is probed.
var ProbeKeys = []string{"", "k", "k2"}
var ProbeGroups = []string{"g", "h"}

// ProbeTypes lists every identity type name of the universe.
var ProbeTypes = func() []string {
	var ts []string
	for _, t := range pool.TypeNames {
		ts = append(ts, t)
	}
	for _, t := range pool.TypeNames {
		ts = append(ts, "I"+t)
	}
	return append(ts, "IA", "IB", "Dec0", "Dec1", "Dec2")
}()

// GenScript appends a random scope-tree / resolution script to the run and executes it.
// It returns the harness scope ids created.
func GenScript(rng *rand.Rand, r *Run, nScopes, nOps int, closeProb int) {
	m := r.Model
	// identities worth resolving: registered ones (weighted) + random universe picks
	type probe struct {
		t, key, group string
	}
	var reg []probe
	for ik := range m.Services {
		reg = append(reg, probe{t: ik.Type, key: ik.Key})
	}
	for gk := range m.Groups {
		reg = append(reg, probe{t: gk.Type, group: gk.Group})
	}
	// deterministic order (map iteration is random)
	sortProbes := func(ps []probe) {
		for i := 1; i < len(ps); i++ {
			for j := i; j > 0 && (ps[j].t+"\x00"+ps[j].key+"\x00"+ps[j].group) < (ps[j-1].t+"\x00"+ps[j-1].key+"\x00"+ps[j-1].group); j-- {
				ps[j], ps[j-1] = ps[j-1], ps[j]
			}
		}
	}
	sortProbes(reg)
	live := []int{0}
	depth := map[int]int{0: 0}
	for i := 0; i < nScopes; i++ {
		parent := live[rng.Intn(len(live))]
		if depth[parent] >= 3 {
			parent = 0
		}
		res := r.Do(Op{Kind: OpCreate, Scope: parent, CtxKind: rng.Intn(6)})
		if res.NewScope > 0 {
			live = append(live, res.NewScope)
			depth[res.NewScope] = depth[parent] + 1
		}
	}
	for i := 0; i < nOps; i++ {
		sc := live[rng.Intn(len(live))]
		if rng.Intn(100) < closeProb && sc != 0 {
			r.Do(Op{Kind: OpClose, Scope: sc})
			continue
		}
		var p probe
		if len(reg) > 0 && rng.Intn(100) < 80 {
			p = reg[rng.Intn(len(reg))]
		} else {
			p.t = ProbeTypes[rng.Intn(len(ProbeTypes))]
			if rng.Intn(3) == 0 {
				p.group = ProbeGroups[rng.Intn(len(ProbeGroups))]
			} else {
				p.key = ProbeKeys[rng.Intn(len(ProbeKeys))]
			}
		}
		generic := rng.Intn(100) < 30
		if p.group != "" {
			r.Do(Op{Kind: OpGetGroup, Scope: sc, Type: p.t, Group: p.group, Generic: generic})
		} else {
			r.Do(Op{Kind: OpGet, Scope: sc, Type: p.t, Key: p.key, Generic: generic})
		}
	}
}

// ProbeAll resolves every identity of the universe on the given scope.
func ProbeAll(r *Run, scope int) {
	for _, t := range ProbeTypes {
		for _, k := range ProbeKeys {
			r.Do(Op{Kind: OpGet, Scope: scope, Type: t, Key: k})
		}
		for _, g := range ProbeGroups {
			r.Do(Op{Kind: OpGetGroup, Scope: scope, Type: t, Group: g})
		}
	}
}

// ProbeRegisteredReverse is ProbeRegistered in the opposite order (groups first, identities in
// descending order), so that what one order finds already cached the other has to construct.
func ProbeRegisteredReverse(r *Run, scope int) {
	m := r.Model
	var gks []GroupKey
	for gk := range m.Groups {
		gks = append(gks, gk)
	}
	for i := 1; i < len(gks); i++ {
		for j := i; j > 0 && (gks[j].Type+"\x00"+gks[j].Group) > (gks[j-1].Type+"\x00"+gks[j-1].Group); j-- {
			gks[j], gks[j-1] = gks[j-1], gks[j]
		}
	}
	for _, gk := range gks {
		r.Do(Op{Kind: OpGetGroup, Scope: scope, Type: gk.Type, Group: gk.Group})
	}
	var iks []IdentKey
	for ik := range m.Services {
		iks = append(iks, ik)
	}
	for i := 1; i < len(iks); i++ {
		for j := i; j > 0 && (iks[j].Type+"\x00"+iks[j].Key) > (iks[j-1].Type+"\x00"+iks[j-1].Key); j-- {
			iks[j], iks[j-1] = iks[j-1], iks[j]
		}
	}
	for _, ik := range iks {
		r.Do(Op{Kind: OpGet, Scope: scope, Type: ik.Type, Key: ik.Key})
	}
}

// ProbeRegistered resolves every registered identity on the given scope.
// ProbeForeignKeys asks for every keyed identity under a key of another Go type with the same
// underlying string: nothing is registered there.
func ProbeForeignKeys(r *Run, scope int) {
	var iks []IdentKey
	for ik := range r.Model.Services {
		if ik.Key != "" {
			iks = append(iks, ik)
		}
	}
	sort.Slice(iks, func(i, j int) bool { return iks[i].Type+"\x00"+iks[i].Key < iks[j].Type+"\x00"+iks[j].Key })
	for _, ik := range iks {
		r.Do(Op{Kind: OpGetForeignKey, Scope: scope, Type: ik.Type, Key: ik.Key})
		r.Do(Op{Kind: OpGet, Scope: scope, Type: ik.Type, Key: ik.Key})
	}
}

func ProbeRegistered(r *Run, scope int) {
	m := r.Model
	var iks []IdentKey
	for ik := range m.Services {
		iks = append(iks, ik)
	}
	for i := 1; i < len(iks); i++ {
		for j := i; j > 0 && (iks[j].Type+"\x00"+iks[j].Key) < (iks[j-1].Type+"\x00"+iks[j-1].Key); j-- {
			iks[j], iks[j-1] = iks[j-1], iks[j]
		}
	}
	for _, ik := range iks {
		r.Do(Op{Kind: OpGet, Scope: scope, Type: ik.Type, Key: ik.Key})
	}
	var gks []GroupKey
	for gk := range m.Groups {
		gks = append(gks, gk)
	}
	for i := 1; i < len(gks); i++ {
		for j := i; j > 0 && (gks[j].Type+"\x00"+gks[j].Group) < (gks[j-1].Type+"\x00"+gks[j-1].Group); j-- {
			gks[j], gks[j-1] = gks[j-1], gks[j]
		}
	}
	for _, gk := range gks {
		r.Do(Op{Kind: OpGetGroup, Scope: scope, Type: gk.Type, Group: gk.Group})
	}
}
