package core

import (
	"fmt"

	"github.com/junioryono/godi/v4"
	"github.com/junioryono/godi/v4/verifh/eng"
	"github.com/junioryono/godi/v4/verifh/pool"
)

// One process, many containers: a collection whose Build is REFUSED (a test that asserts cycle
// detection, a tenant with a broken configuration), and right after it - same goroutine, same Go
// types - a perfectly valid collection. "Build succeeds on every registration set that has no
// dependency cycle, no lifetime conflict and no missing required dependency": what the first
// Build found out about ITS registrations is nobody else's business. Repeated, because whatever
// crosses the two may sit in a pool that drops entries.
func RunRefusedThenValid(c *eng.Ctx, prop string, next func() (int, bool)) {
	type regf struct {
		ctor string
		life godi.Lifetime
		opts []godi.AddOption
	}
	mk := func(ctor string, life godi.Lifetime, opts ...godi.AddOption) regf { return regf{ctor, life, opts} }
	build := func(rs []regf) (godi.Provider, error) {
		coll := godi.NewCollection()
		for _, r := range rs {
			if err := eqAdd(coll, r.life, pool.ByName(r.ctor).Fn, r.opts...); err != nil {
				return nil, fmt.Errorf("registration of %s refused: %w", r.ctor, err)
			}
		}
		return coll.Build()
	}
	for _, life := range allLifetimes {
		depLife := life
		refused := []struct {
			name string
			regs []regf
		}{
			{"cycle", []regf{mk("PosA_0_2", life), mk("PosA_1_1", life)}},
			{"cycle-of-three", []regf{mk("PosA_0_2", life), mk("PosA_1_4", life), mk("PosA_2_1", life)}},
			{"cycle-through-a-group", []regf{mk("InU_0_2_Group", life), mk("PosA_1_1", life, godi.Group("g"))}},
			{"lifetime-conflict", []regf{mk("Leaf_K1_a", godi.Scoped), mk("PosA_0_2", godi.Singleton), mk("Leaf_K2_a", godi.Scoped), mk("InU_3_4_Opt", godi.Transient)}},
			{"missing-dependency", []regf{mk("PosA_0_2", life), mk("PosA_2_8", life)}},
		}
		valid := []struct {
			name string
			regs []regf
		}{
			{"chain", []regf{mk("Leaf_K1_a", depLife), mk("PosA_0_2", life), mk("PosA_2_1", life)}},
			{"reversed-chain", []regf{mk("Leaf_K0_a", depLife), mk("PosA_1_1", life), mk("PosA_2_2", life)}},
			{"absent-optional", []regf{mk("InU_0_2_Opt", life), mk("InU_3_4_Opt", life)}},
			{"group-consumer", []regf{mk("Leaf_K1_a", depLife, godi.Group("g")), mk("InU_0_2_Group", life)}},
		}
		for _, rf := range refused {
			for _, vd := range valid {
				idx, mine := next()
				if !mine {
					continue
				}
				c.R.Begin(idx)
				feat := rf.name + "->" + vd.name + ":" + lifeName(life)
				viol := func(clause, detail string) {
					c.R.Violation(eng.Violation{Prop: prop, Clause: clause, Sig: prop + "/" + clause + ":after-a-refused-build-of-another-collection:" + feat, Case: idx, CaseID: "refused-then-valid-" + feat,
						Detail: feat + ": " + detail, Replay: map[string]any{"fixture": "refused-then-valid", "refused": rf.name, "valid": vd.name, "lifetime": lifeName(life)}})
				}
				rounds := c.Pick(6, 20)
				func() {
					defer func() {
						if p := recover(); p != nil {
							viol("api-call-panics", fmt.Sprintf("panic: %v", p))
						}
					}()
					for round := 0; round < rounds; round++ {
						if p, err := build(rf.regs); err == nil {
							_ = p.Close()
							if prop == "C05" || prop == "C07" || prop == "C08" {
								viol("invalid-set-accepted", "the "+rf.name+" set was accepted")
							}
							return
						}
						p, err := build(vd.regs)
						c.R.Count("refused_then_valid_builds", 1)
						if err != nil {
							viol("valid-set-rejected", fmt.Sprintf("round %d: a collection without cycle, lifetime conflict or missing required dependency was refused right after ANOTHER collection's Build had been refused: %v", round, trimErr(err)))
							return
						}
						sc, err := p.CreateScope(nil)
						if err == nil {
							for _, r := range vd.regs {
								meta := pool.ByName(r.ctor)
								if len(meta.Outs) == 0 || len(r.opts) > 0 {
									continue
								}
								if _, err := sc.Get(pool.T(meta.Outs[0].Type)); err != nil {
									viol("accepted-not-resolvable", fmt.Sprintf("round %d: %s resolves with %v", round, meta.Outs[0].Type, trimErr(err)))
								}
							}
							_ = sc.Close()
						}
						_ = p.Close()
					}
				}()
				c.R.End(idx, eng.Hash("refused-then-valid", prop, feat), true)
			}
		}
	}
}
