package core

import (
	"fmt"
	"strings"

	"github.com/junioryono/godi/v4"
	"github.com/junioryono/godi/v4/verifh/eng"
	"github.com/junioryono/godi/v4/verifh/pool"
)

// Finding is a monitor's report before it is turned into an eng.Violation.
type Finding struct {
	Clause string
	Sig    string // feature part (without the property prefix)
	Detail string
}

func report(c *eng.Ctx, prop string, idx int, r *Run, fs []Finding) {
	seen := map[string]bool{}
	// group slices handed to the caller: what each resolution delivered stays what it delivered
	// (judged by the properties that speak about what a resolution yields)
	if r != nil && (prop == "C01" || prop == "C02" || prop == "C03" || prop == "C04" || prop == "C09" || prop == "C15") {
		fs = append(append([]Finding(nil), fs...), r.SliceFindings()...)
	}
	if r != nil && r.sib != nil {
		fs = append(append([]Finding(nil), fs...), r.SiblingFindings()...)
	}
	for _, f := range fs {
		sig := prop + "/" + f.Clause
		if f.Sig != "" {
			sig += ":" + f.Sig
		}
		if seen[sig] {
			continue // one report per signature and case
		}
		seen[sig] = true
		var rep any
		if r != nil {
			rep = map[string]any{"spec": r.Spec.Lines(), "script": r.ScriptLines()}
		}
		c.R.Violation(eng.Violation{Prop: prop, Clause: f.Clause, Sig: sig, Case: idx, CaseID: fmt.Sprintf("case-%d", idx), Detail: f.Detail + witness(r), Replay: rep})
	}
}

func witness(r *Run) string {
	if r == nil {
		return ""
	}
	lines := r.Spec.Lines()
	if len(lines) > 30 {
		lines = append(lines[:30], "…")
	}
	sl := r.ScriptLines()
	if len(sl) > 40 {
		sl = append(sl[:40], "…")
	}
	return "\nspec:\n  " + strings.Join(lines, "\n  ") + "\nhistory:\n  " + strings.Join(sl, "\n  ")
}

// expectedGet returns the model's expectation for resolving (t,key) on a live scope.
func (m *Model) expectedGet(t, key string) (Provided, string) {
	if key == "" && (t == "Scope" || t == "Provider" || t == "Context") {
		return Provided{-1, 0}, "ok"
	}
	if p, ok := m.Services[IdentKey{t, key}]; ok {
		return p, "ok"
	}
	return Provided{-1, 0}, "not-found"
}

// ---------------------------------------------------------------- C01

// MonC01 checks singleton semantics on a built provider.
func MonC01(r *Run, o *Obs) []Finding {
	var fs []Finding
	if !r.Built {
		return nil
	}
	m := r.Model
	buildRet := o.OpRet[0]
	for i := range m.Regs {
		ri := &m.Regs[i]
		if !m.Accepted(i) || ri.Life != godi.Singleton {
			continue
		}
		feat := m.Features(i)
		if ri.Meta == nil { // instance value: every observation must be that value
			continue
		}
		runs := o.RunsByReg[i]
		if len(runs) != 1 {
			fs = append(fs, Finding{"ctor-count", feat, fmt.Sprintf("singleton %s: constructor invoked %d times (want exactly 1)", m.Describe(i), len(runs))})
		}
		for _, run := range runs {
			if run.EnterSeq > buildRet {
				fs = append(fs, Finding{"ctor-after-build", feat, fmt.Sprintf("singleton %s: constructor invoked after Build returned (op %d)", m.Describe(i), run.Op)})
			}
		}
	}
	// identity: every observation of a singleton identity yields the output of the one invocation
	check := func(p Provided, inst int64, where string) {
		if p.Reg < 0 || m.Regs[p.Reg].Life != godi.Singleton {
			return
		}
		var want int64
		if v, ok := r.Values[p.Reg]; ok {
			want = v.ID
		} else {
			runs := o.Successful(p.Reg)
			if len(runs) == 0 || p.Out >= len(runs[0].Outs) {
				return
			}
			want = runs[0].Outs[p.Out]
		}
		if inst != want {
			fs = append(fs, Finding{"identity", m.Features(p.Reg), fmt.Sprintf("singleton %s (output %d): %s yielded %s, but the instance created at Build is %s", m.Describe(p.Reg), p.Out, where, o.InstName(inst), o.InstName(want))})
		}
	}
	for i := range r.Results {
		res := &r.Results[i]
		if res.Class != "ok" {
			continue
		}
		op := r.Ops[res.Op]
		switch op.Kind {
		case OpGet:
			if p, cls := m.expectedGet(op.Type, op.Key); cls == "ok" && p.Reg >= 0 && len(res.Insts) == 1 && res.Insts[0] != nil {
				check(p, res.Insts[0].ID, fmt.Sprintf("op%d %s", res.Op, op.String()))
			} else if cls == "ok" && p.Reg >= 0 && res.IsNil && m.Regs[p.Reg].Life == godi.Singleton && m.Regs[p.Reg].Meta != nil {
				// "exactly its outputs are what is resolved": every service of the pool is a
				// pointer to a struct the recorder knows; anything else is not an output
				fs = append(fs, Finding{"identity", m.Features(p.Reg), fmt.Sprintf("singleton %s (output %d): op%d %s succeeded with a value that is none of the constructor's outputs (nil, or not a service instance at all)", m.Describe(p.Reg), p.Out, res.Op, op.String())})
			}
		case OpGetGroup:
			members := m.Groups[GroupKey{op.Type, op.Group}]
			if len(members) == len(res.Insts) {
				for k, p := range members {
					if res.Insts[k] != nil {
						check(p, res.Insts[k].ID, fmt.Sprintf("op%d %s[%d]", res.Op, op.String(), k))
					}
				}
			}
		}
	}
	for _, run := range o.Runs {
		if run.Reg < 0 {
			continue
		}
		binds := m.Regs[run.Reg].Binds
		for k, a := range run.Args {
			if k >= len(binds) {
				break
			}
			b := binds[k]
			switch b.Kind {
			case BindSingle:
				if a.Kind == 'i' {
					check(b.Targets[0], a.IDs[0], fmt.Sprintf("argument %d of %s (invocation %d, op%d)", k, m.Describe(run.Reg), run.Nth, run.Op))
				} else if t := b.Targets[0]; m.Regs[t.Reg].Life == godi.Singleton && !anyFailedRun(o) {
					// the slot is bound to a registered singleton but received no instance at all
					// (an optional field left zero although its provider exists and cannot fail)
					fs = append(fs, Finding{"not-injected", m.Features(t.Reg) + ":" + b.Dep.Form.String(), fmt.Sprintf("singleton %s is registered, but argument %d of %s (invocation %d, op%d) received no instance (kind %q)", m.Describe(t.Reg), k, m.Describe(run.Reg), run.Nth, run.Op, string(a.Kind))})
				}
			case BindGroup:
				if len(a.IDs) == len(b.Targets) {
					for j, t := range b.Targets {
						if a.IDs[j] > 0 {
							check(t, a.IDs[j], fmt.Sprintf("argument %d[%d] of %s", k, j, m.Describe(run.Reg)))
						}
					}
				}
			}
		}
	}
	return fs
}

func anyFailedRun(o *Obs) bool {
	for _, run := range o.Runs {
		if run.Failed != "" {
			return true
		}
	}
	return false
}

// ---------------------------------------------------------------- C03

// MonC03 checks transient freshness (failure-free histories).
func MonC03(r *Run, o *Obs) []Finding {
	var fs []Finding
	if !r.Built {
		return nil
	}
	m := r.Model
	delivered := map[int64][]Delivery{}
	for _, d := range o.Deliveries {
		delivered[d.Inst] = append(delivered[d.Inst], d)
	}
	for i := range m.Regs {
		ri := &m.Regs[i]
		if !m.Accepted(i) || ri.Life != godi.Transient || ri.Meta == nil || ri.Void {
			continue
		}
		feat := m.Features(i)
		runs := o.Successful(i)
		nDeliv := 0
		for _, run := range runs {
			perRun := 0
			for _, id := range run.Outs {
				ds := delivered[id]
				if len(ds) > 1 {
					fs = append(fs, Finding{"handed-out-twice", feat, fmt.Sprintf("transient %s: %s was delivered %d times (%s)", m.Describe(i), o.InstName(id), len(ds), describeDeliveries(r, ds))})
				}
				for _, d := range ds {
					if d.Op != run.Op {
						fs = append(fs, Finding{"stale-instance", feat, fmt.Sprintf("transient %s: %s constructed in op%d but delivered in op%d", m.Describe(i), o.InstName(id), run.Op, d.Op)})
					}
				}
				perRun += len(ds)
			}
			nDeliv += perRun
			if perRun == 0 {
				fs = append(fs, Finding{"ctor-without-request", feat, fmt.Sprintf("transient %s: invocation %d (op%d) produced instances that were delivered to nobody although nothing failed", m.Describe(i), run.Nth, run.Op)})
			}
		}
		if len(ri.Meta.Outs) == 1 && nDeliv != len(runs) {
			fs = append(fs, Finding{"ctor-count", feat, fmt.Sprintf("transient %s: %d constructor invocations for %d deliveries", m.Describe(i), len(runs), nDeliv)})
		}
	}
	// whatever produced it: no object may be delivered twice under a transient identity
	// (catches instances served from a cache the transient constructor never filled)
	seenAt := map[int64]string{}
	note := func(p Provided, id int64, where string) {
		if p.Reg < 0 || !m.Accepted(p.Reg) || m.Regs[p.Reg].Life != godi.Transient || m.Regs[p.Reg].Meta == nil || id <= 0 {
			return
		}
		if prev, dup := seenAt[id]; dup {
			fs = append(fs, Finding{"identity-served-twice", m.Features(p.Reg), fmt.Sprintf("transient identity of %s: the same object %s was delivered twice (%s and %s)", m.Describe(p.Reg), o.InstName(id), prev, where)})
			return
		}
		seenAt[id] = where
	}
	for i := range r.Results {
		res := &r.Results[i]
		if res.Class != "ok" {
			continue
		}
		op := r.Ops[res.Op]
		switch op.Kind {
		case OpGet:
			if p, cls := m.expectedGet(op.Type, op.Key); cls == "ok" && len(res.Insts) == 1 && res.Insts[0] != nil {
				note(p, res.Insts[0].ID, fmt.Sprintf("op%d %s", res.Op, op.String()))
			}
		case OpGetGroup:
			members := m.Groups[GroupKey{op.Type, op.Group}]
			if len(members) == len(res.Insts) {
				for k, p := range members {
					if res.Insts[k] != nil {
						note(p, res.Insts[k].ID, fmt.Sprintf("op%d %s[%d]", res.Op, op.String(), k))
					}
				}
			}
		}
	}
	for _, run := range o.Runs {
		if run.Reg < 0 {
			continue
		}
		binds := m.Regs[run.Reg].Binds
		for k, a := range run.Args {
			if k >= len(binds) {
				break
			}
			switch b := binds[k]; b.Kind {
			case BindSingle:
				if a.Kind == 'i' {
					note(b.Targets[0], a.IDs[0], fmt.Sprintf("argument %d of %s invocation %d", k, m.Describe(run.Reg), run.Nth))
				}
			case BindGroup:
				if len(a.IDs) == len(b.Targets) {
					for j, t := range b.Targets {
						note(t, a.IDs[j], fmt.Sprintf("argument %d[%d] of %s invocation %d", k, j, m.Describe(run.Reg), run.Nth))
					}
				}
			}
		}
	}
	return fs
}

func describeDeliveries(r *Run, ds []Delivery) string {
	var ps []string
	for _, d := range ds {
		if d.Direct {
			ps = append(ps, fmt.Sprintf("result of op%d", d.Op))
		} else {
			ps = append(ps, fmt.Sprintf("argument %d of r%d in op%d", d.Slot, d.Consumer, d.Op))
		}
	}
	return strings.Join(ps, ", ")
}

// ---------------------------------------------------------------- C04

// MonC04 checks wiring fidelity: producers of results and arguments, identity universe.
func MonC04(r *Run, o *Obs) []Finding {
	var fs []Finding
	if !r.Built {
		return nil
	}
	m := r.Model
	origin := func(id int64) (Provided, bool) {
		p, ok := o.Produced[id]
		return Provided{p.Reg, p.Out}, ok
	}
	for _, run := range o.Runs {
		if run.Reg < 0 {
			fs = append(fs, Finding{"unregistered-ctor-ran", "", fmt.Sprintf("constructor %s ran although no accepted registration uses it", pool.Ctors[run.Ctor].Name)})
			continue
		}
		ri := &m.Regs[run.Reg]
		feat := m.Features(run.Reg)
		if ri.Reject == "(removed)" {
			fs = append(fs, Finding{"removed-registration-ctor-ran", feat, fmt.Sprintf("%s ran (op%d) although every identity it was registered under has been removed from the collection", m.Describe(run.Reg), run.Op)})
			continue
		}
		for k, a := range run.Args {
			if k >= len(ri.Binds) {
				break
			}
			b := ri.Binds[k]
			form := b.Dep.Form.String()
			where := fmt.Sprintf("argument %d (%s %s) of %s, invocation %d in op%d", k, form, b.Dep.Target, m.Describe(run.Reg), run.Nth, run.Op)
			switch b.Kind {
			case BindInert:
				if a.Kind != 'z' {
					fs = append(fs, Finding{"inert-field-touched", form, where + ": field must be left untouched but holds a value"})
				}
			case BindBuiltin:
				want := map[pool.Form]byte{pool.FScope: 'S', pool.FProvider: 'P', pool.FContext: 'C'}[b.Dep.Form]
				if a.Kind != want {
					fs = append(fs, Finding{"builtin-arg", form, fmt.Sprintf("%s: received kind %q", where, a.Kind)})
				}
			case BindSingle:
				if a.Kind != 'i' {
					fs = append(fs, Finding{"arg-missing", form + ":" + feat, fmt.Sprintf("%s: received kind %q, want the instance of %s", where, a.Kind, m.Describe(b.Targets[0].Reg))})
					continue
				}
				if got, ok := origin(a.IDs[0]); !ok || got != b.Targets[0] {
					fs = append(fs, Finding{"arg-wrong-producer", form + ":" + m.Features(b.Targets[0].Reg), fmt.Sprintf("%s: received %s, want output %d of %s", where, o.InstName(a.IDs[0]), b.Targets[0].Out, m.Describe(b.Targets[0].Reg))})
				}
			case BindGroup:
				if a.Kind != 's' && a.Kind != 'n' {
					fs = append(fs, Finding{"group-arg-kind", form, fmt.Sprintf("%s: received kind %q, want a slice", where, a.Kind)})
					continue
				}
				if len(a.IDs) != len(b.Targets) {
					fs = append(fs, Finding{"group-arg-members", form, fmt.Sprintf("%s: received %d members, the group has %d registrations", where, len(a.IDs), len(b.Targets))})
					continue
				}
				for j, t := range b.Targets {
					if got, ok := origin(a.IDs[j]); !ok || got != t {
						fs = append(fs, Finding{"group-arg-order", form + ":" + m.Features(t.Reg), fmt.Sprintf("%s: member %d is %s, want output %d of %s (registration order)", where, j, o.InstName(a.IDs[j]), t.Out, m.Describe(t.Reg))})
						break
					}
				}
			case BindAbsentOK:
				if a.Kind != 'z' && !(a.Kind == 's' && len(a.IDs) == 0) && a.Kind != 'n' {
					fs = append(fs, Finding{"optional-absent-nonzero", form, where + ": nothing is registered under that identity but the field is not zero"})
				}
			}
		}
	}
	// direct resolutions
	for i := range r.Results {
		res := &r.Results[i]
		op := r.Ops[res.Op]
		if res.Class == "skipped" || res.Class == "scope-disposed" || res.Class == "provider-disposed" {
			continue
		}
		where := fmt.Sprintf("op%d %s", res.Op, op.String())
		switch op.Kind {
		case OpGet:
			want, cls := m.expectedGet(op.Type, op.Key)
			if cls == "not-found" {
				if res.Class != "not-found" {
					fs = append(fs, Finding{"unregistered-identity-resolves", identClass(op), fmt.Sprintf("%s: identity is not registered but resolution returned %s %v", where, res.Class, res.Err)})
				}
				continue
			}
			if res.Class != "ok" {
				fs = append(fs, Finding{"registered-identity-fails", identClass(op) + ":" + featOrBuiltin(m, want), fmt.Sprintf("%s: identity is registered (%s) but resolution failed: %s %v", where, descOrBuiltin(m, want), res.Class, res.Err)})
				continue
			}
			if want.Reg < 0 {
				continue // builtin: identity checked by C18
			}
			if len(res.Insts) != 1 || res.Insts[0] == nil {
				fs = append(fs, Finding{"result-not-instance", m.Features(want.Reg), where + ": returned a nil / foreign value"})
				continue
			}
			if got, ok := origin(res.Insts[0].ID); !ok || got != want {
				fs = append(fs, Finding{"result-wrong-producer", m.Features(want.Reg), fmt.Sprintf("%s: returned %s, want output %d of %s", where, o.InstName(res.Insts[0].ID), want.Out, m.Describe(want.Reg))})
			}
		case OpGetGroup:
			members := m.Groups[GroupKey{op.Type, op.Group}]
			if res.Class != "ok" {
				f := "empty-group"
				if len(members) > 0 {
					f = m.Features(members[0].Reg)
				}
				fs = append(fs, Finding{"group-resolution-fails", f, fmt.Sprintf("%s: group has %d registrations but resolution failed: %s %v", where, len(members), res.Class, res.Err)})
				continue
			}
			if len(res.Insts) != len(members) {
				f := "empty-group"
				if len(members) > 0 {
					f = m.Features(members[0].Reg)
				}
				fs = append(fs, Finding{"group-members", f, fmt.Sprintf("%s: returned %d members, the group has %d registrations", where, len(res.Insts), len(members))})
				continue
			}
			for k, t := range members {
				if res.Insts[k] == nil {
					fs = append(fs, Finding{"group-member-nil", m.Features(t.Reg), fmt.Sprintf("%s: member %d is nil", where, k)})
					break
				}
				if got, ok := origin(res.Insts[k].ID); !ok || got != t {
					fs = append(fs, Finding{"group-order", m.Features(t.Reg), fmt.Sprintf("%s: member %d is %s, want output %d of %s (registration order)", where, k, o.InstName(res.Insts[k].ID), t.Out, m.Describe(t.Reg))})
					break
				}
			}
		}
	}
	return fs
}

func identClass(op Op) string {
	c := "plain"
	if op.Key != "" {
		c = "keyed"
	}
	if strings.HasPrefix(op.Type, "I") {
		c += "-iface"
	}
	if op.Generic {
		c += "-generic"
	}
	return c
}

func featOrBuiltin(m *Model, p Provided) string {
	if p.Reg < 0 {
		return "builtin"
	}
	return m.Features(p.Reg)
}

func descOrBuiltin(m *Model, p Provided) string {
	if p.Reg < 0 {
		return "built-in"
	}
	return m.Describe(p.Reg)
}

// ---------------------------------------------------------------- C07

// MonC07Captive scans everything singleton/transient constructors received for instances of
// scoped registrations.
func MonC07Captive(r *Run, o *Obs) []Finding {
	var fs []Finding
	if !r.Built {
		return nil
	}
	m := r.Model
	for _, run := range o.Runs {
		if run.Reg < 0 || m.Regs[run.Reg].Life == godi.Scoped {
			continue
		}
		for k, a := range run.Args {
			for _, id := range a.IDs {
				p, ok := o.Produced[id]
				if !ok || p.Reg < 0 {
					continue
				}
				if m.Regs[p.Reg].Life == godi.Scoped {
					form := "?"
					if k < len(m.Regs[run.Reg].Binds) {
						form = m.Regs[run.Reg].Binds[k].Dep.Form.String()
					}
					fs = append(fs, Finding{"captive-instance", lifeName(m.Regs[run.Reg].Life) + "<-scoped:" + form, fmt.Sprintf("%s (invocation %d, op%d) received %s, an instance of the scoped registration %s, in argument %d", m.Describe(run.Reg), run.Nth, run.Op, o.InstName(id), m.Describe(p.Reg), k)})
				}
			}
		}
	}
	return fs
}
