// Package core is the container-level monitoring engine: registration specs built from the
// static pool, an independent reference model of the documented semantics, an executor that
// drives real godi with every API call bracketed by events, and the monitors of C01 C03 C04
// C05 C06 C07 C08 C10 C11 C15 C18 (pure functions over spec + model + event log).
package core

import (
	"fmt"
	"sort"
	"strings"

	"github.com/junioryono/godi/v4"
	"github.com/junioryono/godi/v4/verifh/pool"
)

// Reg is one Add* call.
type Reg struct {
	Ctor  int           `json:"ctor"`            // pool constructor id; -1 = instance value
	Value string        `json:"value,omitempty"` // type name of the instance value
	Life  godi.Lifetime `json:"life"`
	Name  string        `json:"name,omitempty"`
	Group string        `json:"group,omitempty"`
	As    []string      `json:"as,omitempty"`
	// Remove steps: Collection.Remove(RmType) / RemoveKeyed(RmType, RmKey)
	Remove bool   `json:"remove,omitempty"`
	RmType string `json:"rm_type,omitempty"`
	RmKey  string `json:"rm_key,omitempty"`
	// RmInt > 0: RemoveKeyed(RmType, RmInt) - an int key. No registration can have one (names are
	// strings), so the step removes nothing; godi numbers group members with such ints internally
	RmInt int `json:"rm_int,omitempty"`
	// Tail steps keep their position at the end of the spec (Remove and re-Add steps are
	// order-sensitive by nature; C06 permutes only the prefix).
	Tail bool `json:"tail,omitempty"`
}

// Spec is an ordered list of registrations.
type Spec struct {
	Regs []Reg `json:"regs"`
	// RebuildAfter > 0: after that many steps the collection is built once (the provider is
	// closed at once and its events are not logged); the remaining steps follow and the Build
	// under observation comes last. What Build decides must depend on the final set only.
	RebuildAfter int `json:"rebuild_after,omitempty"`
	// KeepSibling (with RebuildAfter): the provider of the intermediate Build stays alive next to
	// the one under observation and keeps being used (see sibling.go).
	KeepSibling bool `json:"keep_sibling,omitempty"`
}

func lifeName(l godi.Lifetime) string {
	switch l {
	case godi.Singleton:
		return "singleton"
	case godi.Scoped:
		return "scoped"
	case godi.Transient:
		return "transient"
	}
	return "?"
}

// String renders one registration.
func (r Reg) String() string {
	var sb strings.Builder
	if r.Remove {
		if r.RmInt > 0 {
			return fmt.Sprintf("RemoveKeyed(%s,int(%d))", r.RmType, r.RmInt)
		}
		if r.RmKey != "" {
			return fmt.Sprintf("RemoveKeyed(%s,%q)", r.RmType, r.RmKey)
		}
		return "Remove(" + r.RmType + ")"
	}
	sb.WriteString("Add")
	sb.WriteString(strings.Title(lifeName(r.Life)))
	sb.WriteString("(")
	if r.Ctor >= 0 {
		m := &pool.Ctors[r.Ctor]
		sb.WriteString(m.Name)
		sb.WriteString(sigOf(m))
	} else {
		sb.WriteString("value:&" + r.Value + "{}")
	}
	if r.Name != "" {
		fmt.Fprintf(&sb, ", Name(%q)", r.Name)
	}
	if r.Group != "" {
		fmt.Fprintf(&sb, ", Group(%q)", r.Group)
	}
	for _, a := range r.As {
		fmt.Fprintf(&sb, ", As[%s]", a)
	}
	sb.WriteString(")")
	return sb.String()
}

func sigOf(m *pool.Meta) string {
	var ds []string
	for _, d := range m.Deps {
		s := d.Target
		switch {
		case d.Group != "":
			s = "[]" + s + " group:" + d.Group
		case d.Key != "":
			s += " name:" + d.Key
		}
		if d.Optional {
			s += " optional"
		}
		if d.IsInert() {
			s += " " + d.Form.String()
		}
		ds = append(ds, s)
	}
	var os []string
	for _, o := range m.Outs {
		s := o.Type
		if o.Key != "" {
			s += " name:" + o.Key
		}
		if o.Group != "" {
			s += " group:" + o.Group
		}
		os = append(os, s)
	}
	if m.HasErr {
		os = append(os, "error")
	}
	style := ""
	if m.InStyle {
		style = "In"
	}
	if m.ResultObj {
		style += "Out"
	}
	return fmt.Sprintf("[%s(%s)->(%s)]", style, strings.Join(ds, ", "), strings.Join(os, ", "))
}

// Lines renders the spec, one registration per line.
func (s *Spec) Lines() []string {
	out := make([]string, 0, len(s.Regs)+1)
	for i, r := range s.Regs {
		if s.RebuildAfter > 0 && i == s.RebuildAfter {
			if s.KeepSibling {
				out = append(out, "-- intermediate Build (provider kept alive and used until the end of the run) --")
			} else {
				out = append(out, "-- intermediate Build (provider closed at once) --")
			}
		}
		out = append(out, fmt.Sprintf("r%d %s", i, r.String()))
	}
	return out
}

// Canon is a canonical, order-insensitive (except inside groups) rendering used for hashing.
func (s *Spec) Canon() string {
	var plain []string
	for _, r := range s.Regs {
		if r.Group == "" && !r.Tail {
			plain = append(plain, r.String())
		}
	}
	sort.Strings(plain)
	var grouped, tail []string
	for _, r := range s.Regs {
		if r.Tail {
			tail = append(tail, r.String())
		} else if r.Group != "" {
			grouped = append(grouped, r.String())
		}
	}
	return strings.Join(plain, ";") + "|" + strings.Join(grouped, ";") + "|" + strings.Join(tail, ";") + fmt.Sprintf("|rebuild@%d/%v", s.RebuildAfter, s.KeepSibling)
}

// AddTo applies registration i to a collection.
func (r Reg) AddTo(c godi.Collection) error {
	if r.Remove {
		if r.RmInt > 0 {
			c.RemoveKeyed(pool.T(r.RmType), r.RmInt)
		} else if r.RmKey != "" {
			c.RemoveKeyed(pool.T(r.RmType), r.RmKey)
		} else {
			c.Remove(pool.T(r.RmType))
		}
		return nil
	}
	var opts []godi.AddOption
	if r.Name != "" {
		opts = append(opts, godi.Name(r.Name))
	}
	if r.Group != "" {
		opts = append(opts, godi.Group(r.Group))
	}
	for _, a := range r.As {
		opts = append(opts, pool.AsOption(a))
	}
	var svc any
	if r.Ctor >= 0 {
		svc = pool.Ctors[r.Ctor].Fn
	} else {
		panic("instance values are added through Exec (they need a recorder)")
	}
	switch r.Life {
	case godi.Singleton:
		return c.AddSingleton(svc, opts...)
	case godi.Scoped:
		return c.AddScoped(svc, opts...)
	default:
		return c.AddTransient(svc, opts...)
	}
}
