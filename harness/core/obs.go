package core

import (
	"fmt"

	"github.com/junioryono/godi/v4/verifh/rt"
)

// CtorRun is one invocation of a registered constructor.
type CtorRun struct {
	Reg      int
	Ctor     int
	Nth      int
	Scope    int // harness scope the triggering operation was issued on (-1 unknown)
	Op       int
	G        int64
	EnterSeq int64
	ExitSeq  int64 // 0 when it failed / never finished
	Failed   string
	Args     []rt.Arg
	Outs     []int64
}

// Produced says where an instance came from.
type Produced struct {
	Reg, Out int // Reg -1: unknown constructor
	Run      *CtorRun
	Value    bool // harness-made instance value
}

// Delivery is one hand-out of an instance: as a resolution result or as a constructor argument.
type Delivery struct {
	Inst     int64
	Direct   bool // resolution result
	Op       int
	Scope    int
	Consumer int // consuming registration (argument deliveries)
	Slot     int
	Seq      int64
	RunNth   int
}

// CloseRec is one Close() call on an instance.
type CloseRec struct {
	Seq   int64
	Op    int
	Scope int
	G     int64
}

// Obs is the digest of a run's event log.
type Obs struct {
	Events     []rt.Event
	Runs       []*CtorRun
	RunsByReg  map[int][]*CtorRun
	Produced   map[int64]Produced
	Deliveries []Delivery
	Closes     map[int64][]CloseRec
	CloseOrder []int64 // instance ids in close order (first close event each)
	Decoys     []rt.Event
	OpCall     map[int]int64
	OpRet      map[int]int64
}

// Digest builds the observation digest of a run.
func Digest(r *Run) *Obs {
	o := &Obs{Events: r.Rec.Events(), RunsByReg: map[int][]*CtorRun{}, Produced: map[int64]Produced{}, Closes: map[int64][]CloseRec{}, OpCall: map[int]int64{}, OpRet: map[int]int64{}}
	for reg, inst := range r.Values {
		o.Produced[inst.ID] = Produced{Reg: reg, Out: 0, Value: true}
	}
	open := map[[2]int]*CtorRun{} // (ctor, nth)
	for _, e := range o.Events {
		switch e.Kind {
		case rt.OpCall:
			o.OpCall[e.Op] = e.Seq
		case rt.OpRet:
			o.OpRet[e.Op] = e.Seq
		case rt.CtorEnter:
			run := &CtorRun{Reg: r.Model.RegOfCtor(e.Ctor), Ctor: e.Ctor, Nth: e.Nth, Scope: e.Scope, Op: e.Op, G: e.G, EnterSeq: e.Seq, Args: e.Args}
			o.Runs = append(o.Runs, run)
			o.RunsByReg[run.Reg] = append(o.RunsByReg[run.Reg], run)
			open[[2]int{e.Ctor, e.Nth}] = run
			for _, a := range e.Args {
				if a.Kind == 'i' || a.Kind == 's' {
					for _, id := range a.IDs {
						if id > 0 {
							o.Deliveries = append(o.Deliveries, Delivery{Inst: id, Op: e.Op, Scope: e.Scope, Consumer: run.Reg, Slot: a.Slot, Seq: e.Seq, RunNth: e.Nth})
						}
					}
				}
			}
		case rt.CtorFail:
			if run := open[[2]int{e.Ctor, e.Nth}]; run != nil {
				run.Failed = e.Note
			}
		case rt.CtorExit:
			if run := open[[2]int{e.Ctor, e.Nth}]; run != nil {
				run.ExitSeq = e.Seq
				run.Outs = e.Insts
				for i, id := range e.Insts {
					o.Produced[id] = Produced{Reg: run.Reg, Out: i, Run: run}
				}
			}
		case rt.CloseEv:
			id := e.Insts[0]
			if len(o.Closes[id]) == 0 {
				o.CloseOrder = append(o.CloseOrder, id)
			}
			o.Closes[id] = append(o.Closes[id], CloseRec{Seq: e.Seq, Op: e.Op, Scope: e.Scope, G: e.G})
		case rt.DecoyEv:
			o.Decoys = append(o.Decoys, e)
		}
	}
	// constructor runs triggered by a CreateScope operation belong to the scope being created
	// (-2: the creation failed, the scope never materialised)
	for _, run := range o.Runs {
		if run.Op >= 0 && run.Op < len(r.Ops) && r.Ops[run.Op].Kind == OpCreate {
			if run.Op < len(r.Results) && r.Results[run.Op].NewScope > 0 {
				run.Scope = r.Results[run.Op].NewScope
			} else {
				run.Scope = -2
			}
		}
	}
	// an argument delivery happens in the scope its consumer is constructed in
	runAt := map[[2]int]*CtorRun{}
	for _, run := range o.Runs {
		runAt[[2]int{run.Reg, run.Nth}] = run
	}
	for i := range o.Deliveries {
		d := &o.Deliveries[i]
		if !d.Direct {
			if run := runAt[[2]int{d.Consumer, d.RunNth}]; run != nil {
				d.Scope = run.Scope
			}
		}
	}
	for i := range r.Results {
		res := &r.Results[i]
		if res.Class != "ok" {
			continue
		}
		for _, in := range res.Insts {
			if in != nil {
				o.Deliveries = append(o.Deliveries, Delivery{Inst: in.ID, Direct: true, Op: res.Op, Scope: r.Ops[res.Op].Scope, Consumer: -1, Seq: res.Ret})
			}
		}
	}
	return o
}

// Successful returns the successful runs of registration reg.
func (o *Obs) Successful(reg int) []*CtorRun {
	var out []*CtorRun
	for _, run := range o.RunsByReg[reg] {
		if run.ExitSeq != 0 {
			out = append(out, run)
		}
	}
	return out
}

// InstName renders an instance id with its origin.
func (o *Obs) InstName(id int64) string {
	p, ok := o.Produced[id]
	if !ok {
		return fmt.Sprintf("inst#%d(unknown origin)", id)
	}
	if p.Value {
		return fmt.Sprintf("inst#%d(value of r%d)", id, p.Reg)
	}
	return fmt.Sprintf("inst#%d(r%d out%d, invocation %d)", id, p.Reg, p.Out, p.Run.Nth)
}
