package core

import (
	"fmt"
	"sort"

	"github.com/junioryono/godi/v4"
	"github.com/junioryono/godi/v4/verifh/pool"
)

// IdentKey is a (type, key) service identity; GroupKey a (type, group) identity.
type IdentKey struct{ Type, Key string }
type GroupKey struct{ Type, Group string }

// Provided names the registration and output that provides an identity.
type Provided struct{ Reg, Out int }

// BindKind classifies what a declared dependency resolves to.
type BindKind uint8

const (
	BindInert    BindKind = iota // ignored / unexported field: stays zero
	BindBuiltin                  // Scope / Provider / Context
	BindSingle                   // exactly one registration
	BindGroup                    // all members of a group, in registration order (possibly none)
	BindAbsentOK                 // optional and not registered: stays zero
	BindMissing                  // required and not registered
)

// DepBind is the model's binding of one declared dependency.
type DepBind struct {
	Dep     pool.Dep
	Kind    BindKind
	Targets []Provided
}

// RegInfo is what the model knows about one registration.
type RegInfo struct {
	Reject    string // "" accepted; otherwise the expected rejection class
	Meta      *pool.Meta
	Idents    []IdentKey // service identities provided (per output; "" type when grouped)
	Groups    []GroupKey // group identities provided (per output; "" type when not grouped)
	Binds     []DepBind
	Void      bool
	Life      godi.Lifetime
	NumOuts   int
	Disposes  []bool // per output: instance type has Close() error
	LiveOut   []bool // per output: still registered (not taken out by a Remove step)
	IsRemove  bool   // the step is a Remove / RemoveKeyed call
	identOut  []int  // per identity: output index
	identGone []bool // per identity: removed by a later Remove step
}

// Class is the expected Build verdict class.
type Class int

const (
	ClsOK Class = iota
	ClsCircular
	ClsLifetime
	ClsMissing
	ClsMulti // more than one defect: only "Build fails" is required
)

func (c Class) String() string {
	return [...]string{"ok", "circular", "lifetime-conflict", "missing-dependency", "multiple-defects"}[c]
}

// Model is the reference model of a spec.
type Model struct {
	Spec     *Spec
	Regs     []RegInfo
	Services map[IdentKey]Provided
	Groups   map[GroupKey][]Provided
	Edges    [][]int // accepted reg -> regs it depends on (deduplicated)
	Cyclic   bool
	Conflict bool
	Missing  bool
	Class    Class
	// features for signatures / profiles
	HasMultiAlias  bool // a registration with >= 2 As aliases (open finding D6)
	HasMultiOutOpt bool // multi-return with Name/Group (open finding D8)
	HasOutGroup    bool // Out struct with a group field (open finding D9)
	HasRemoves     bool // the spec contains Remove steps
}

// NewModel computes the reference model.
func NewModel(s *Spec) *Model {
	m := &Model{Spec: s, Regs: make([]RegInfo, len(s.Regs)), Services: map[IdentKey]Provided{}, Groups: map[GroupKey][]Provided{}}
	for i, r := range s.Regs {
		ri := &m.Regs[i]
		ri.Life = r.Life
		if r.Remove {
			ri.IsRemove = true
			ri.Reject = "(remove-step)"
			m.HasRemoves = true
			if r.RmInt > 0 {
				continue // an int key matches no registration
			}
			if p, ok := m.Services[IdentKey{r.RmType, r.RmKey}]; ok {
				delete(m.Services, IdentKey{r.RmType, r.RmKey})
				tr := &m.Regs[p.Reg]
				for k, ik := range tr.Idents {
					if ik == (IdentKey{r.RmType, r.RmKey}) {
						tr.Idents[k] = IdentKey{}
						tr.identGone[k] = true
					}
				}
				// an output is live while at least one of its identities is registered
				for oi := range tr.LiveOut {
					tr.LiveOut[oi] = false
				}
				anyLive := false
				for k := range tr.Idents {
					if !tr.identGone[k] {
						tr.LiveOut[tr.identOut[k]] = true
						anyLive = true
					}
				}
				if !anyLive {
					tr.Reject = "(removed)"
				}
			}
			continue
		}
		var outs []pool.Out
		if r.Ctor >= 0 {
			ri.Meta = &pool.Ctors[r.Ctor]
			outs = ri.Meta.Outs
			ri.Void = ri.Meta.Void
		} else {
			outs = []pool.Out{{Type: r.Value, Impl: r.Value}}
		}
		ri.NumOuts = len(outs)
		for _, o := range outs {
			ri.Disposes = append(ri.Disposes, pool.Types[o.Impl].Disposable)
			ri.LiveOut = append(ri.LiveOut, true)
		}
		if r.Name != "" && r.Group != "" {
			ri.Reject = "name+group"
			continue
		}
		if ri.Meta != nil && ri.Meta.ResultObj {
			for _, o := range outs {
				if o.Key != "" && o.Group != "" {
					ri.Reject = "out-name+group"
				}
			}
			if ri.Reject != "" {
				continue
			}
		}
		if ri.Void {
			continue
		}
		multi := len(outs) > 1 && !ri.Meta.ResultObj
		if multi && (r.Name != "" || r.Group != "") {
			m.HasMultiOutOpt = true
		}
		if len(r.As) >= 2 {
			m.HasMultiAlias = true
		}
		// identities per output
		type idn struct {
			ik  IdentKey
			gk  GroupKey
			out int
		}
		var ids []idn
		for oi, o := range outs {
			switch {
			case ri.Meta != nil && ri.Meta.ResultObj:
				if o.Group != "" {
					m.HasOutGroup = true
					ids = append(ids, idn{gk: GroupKey{o.Type, o.Group}, out: oi})
				} else {
					ids = append(ids, idn{ik: IdentKey{o.Type, o.Key}, out: oi})
				}
			case multi:
				key := ""
				if oi == 0 {
					key = r.Name
				}
				if r.Group != "" {
					ids = append(ids, idn{gk: GroupKey{o.Type, r.Group}, out: oi})
				} else {
					ids = append(ids, idn{ik: IdentKey{o.Type, key}, out: oi})
				}
			default:
				types := []string{o.Type}
				if len(r.As) > 0 {
					types = r.As
				}
				for _, t := range types {
					if len(r.As) > 0 && !implements(o.Impl, t) {
						ri.Reject = "alias-mismatch"
					}
					if r.Group != "" {
						ids = append(ids, idn{gk: GroupKey{t, r.Group}, out: oi})
					} else {
						ids = append(ids, idn{ik: IdentKey{t, r.Name}, out: oi})
					}
				}
			}
		}
		if ri.Reject != "" {
			continue
		}
		for _, id := range ids {
			if t := id.ik.Type + id.gk.Type; t == "Scope" || t == "Provider" || t == "Context" {
				ri.Reject = "reserved"
			}
			if id.ik.Type != "" {
				if _, dup := m.Services[id.ik]; dup {
					ri.Reject = "duplicate"
				}
			}
		}
		if ri.Reject != "" {
			continue
		}
		for _, id := range ids {
			ri.identOut = append(ri.identOut, id.out)
			ri.identGone = append(ri.identGone, false)
			if id.ik.Type != "" {
				m.Services[id.ik] = Provided{i, id.out}
				ri.Idents = append(ri.Idents, id.ik)
				ri.Groups = append(ri.Groups, GroupKey{})
			} else {
				m.Groups[id.gk] = append(m.Groups[id.gk], Provided{i, id.out})
				ri.Idents = append(ri.Idents, IdentKey{})
				ri.Groups = append(ri.Groups, id.gk)
			}
		}
	}
	// bindings and edges
	m.Edges = make([][]int, len(s.Regs))
	for i := range m.Regs {
		ri := &m.Regs[i]
		if ri.Reject != "" || ri.Meta == nil {
			continue
		}
		seen := map[int]bool{}
		for _, d := range ri.Meta.Deps {
			b := DepBind{Dep: d}
			switch {
			case d.IsInert():
				b.Kind = BindInert
			case d.IsBuiltin() && d.Key == "" && d.Group == "":
				b.Kind = BindBuiltin
			case d.Group != "":
				b.Kind = BindGroup
				b.Targets = append(b.Targets, m.Groups[GroupKey{d.Target, d.Group}]...)
			default:
				if p, ok := m.Services[IdentKey{d.Target, d.Key}]; ok {
					b.Kind = BindSingle
					b.Targets = []Provided{p}
				} else if d.Optional {
					b.Kind = BindAbsentOK
				} else {
					b.Kind = BindMissing
					m.Missing = true
				}
			}
			for _, t := range b.Targets {
				if !seen[t.Reg] {
					seen[t.Reg] = true
					m.Edges[i] = append(m.Edges[i], t.Reg)
				}
				if ri.Life != godi.Scoped && m.Regs[t.Reg].Life == godi.Scoped {
					m.Conflict = true
				}
			}
			ri.Binds = append(ri.Binds, b)
		}
		sort.Ints(m.Edges[i])
	}
	m.Cyclic = m.findCycle() != nil
	n := 0
	for _, b := range []bool{m.Cyclic, m.Conflict, m.Missing} {
		if b {
			n++
		}
	}
	switch {
	case n == 0:
		m.Class = ClsOK
	case n > 1:
		m.Class = ClsMulti
	case m.Cyclic:
		m.Class = ClsCircular
	case m.Conflict:
		m.Class = ClsLifetime
	default:
		m.Class = ClsMissing
	}
	return m
}

func implements(impl, iface string) bool {
	ti, ok := pool.Types[iface]
	if !ok || !ti.Iface {
		return false
	}
	for _, t := range ti.Impl {
		if t == impl {
			return true
		}
	}
	return false
}

// Accepted reports whether registration i is expected to be accepted.
func (m *Model) Accepted(i int) bool { return m.Regs[i].Reject == "" }

// findCycle returns some directed cycle of registrations (as a closed list) or nil.
func (m *Model) findCycle() []int {
	color := make([]int, len(m.Regs))
	var stack []int
	var found []int
	var visit func(n int) bool
	visit = func(n int) bool {
		color[n] = 1
		stack = append(stack, n)
		for _, d := range m.Edges[n] {
			if color[d] == 1 {
				for k := len(stack) - 1; k >= 0; k-- {
					if stack[k] == d {
						found = append([]int{}, stack[k:]...)
						return true
					}
				}
			}
			if color[d] == 0 && visit(d) {
				return true
			}
		}
		color[n] = 2
		stack = stack[:len(stack)-1]
		return false
	}
	for i := range m.Regs {
		if m.Accepted(i) && color[i] == 0 && visit(i) {
			return found
		}
	}
	return nil
}

// HasEdge reports whether registration a depends directly on registration b.
func (m *Model) HasEdge(a, b int) bool {
	for _, d := range m.Edges[a] {
		if d == b {
			return true
		}
	}
	return false
}

// Reach returns the set of registrations reachable from reg i (excluding i unless on a cycle).
func (m *Model) Reach(i int) map[int]bool {
	out := map[int]bool{}
	stack := []int{i}
	for len(stack) > 0 {
		n := stack[len(stack)-1]
		stack = stack[:len(stack)-1]
		for _, d := range m.Edges[n] {
			if !out[d] {
				out[d] = true
				stack = append(stack, d)
			}
		}
	}
	return out
}

// Lookup returns the provider of a service identity.
func (m *Model) Lookup(t, key string) (Provided, bool) {
	p, ok := m.Services[IdentKey{t, key}]
	return p, ok
}

// RegOfCtor maps a constructor id to the registration using it (-1 if none; specs never
// use a constructor twice).
func (m *Model) RegOfCtor(ctor int) int {
	for i, r := range m.Spec.Regs {
		if !r.Remove && r.Ctor == ctor {
			return i
		}
	}
	return -1
}

// Describe renders registration i for witnesses.
func (m *Model) Describe(i int) string {
	return fmt.Sprintf("r%d %s", i, m.Spec.Regs[i].String())
}

// Features returns canonical feature words of registration i (for signatures).
func (m *Model) Features(i int) string {
	r := m.Spec.Regs[i]
	ri := &m.Regs[i]
	f := lifeName(r.Life)
	if r.Ctor < 0 {
		return f + ":value"
	}
	switch {
	case ri.Meta.Void:
		f += ":initializer"
	case ri.Meta.ResultObj:
		f += ":out-struct"
		for _, o := range ri.Meta.Outs {
			if o.Group != "" {
				f += "+groupfield"
				break
			}
		}
	case len(ri.Meta.Outs) > 1:
		f += ":multi-return"
	}
	if len(r.As) == 1 {
		f += ":as1"
	} else if len(r.As) > 1 {
		f += ":as>=2"
	}
	if r.Name != "" {
		f += ":named"
	}
	if r.Group != "" {
		f += ":grouped"
	}
	return f
}
