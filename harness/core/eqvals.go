package core

import (
	"fmt"
	"sort"
	"sync"

	"github.com/junioryono/godi/v4"
	"github.com/junioryono/godi/v4/verifh/eng"
)

// Value-equal instances.
//
// Pool instances carry a unique id, so two of them never compare equal by value. Real services
// often do: two connections with the same DSN, two zero-valued workers. The container must
// tell instances apart by identity (the pointer), never by value: a second output that merely
// LOOKS like the first one is still a separate instance that must be resolvable under its own
// identity and closed exactly once. The fixtures below have no per-instance field; the harness
// tracks them by pointer in a side table.

// EqConn is a disposable service without any distinguishing field.
type EqConn struct {
	DSN  string
	Port int
}

type eqRec struct {
	inv, out int
	closes   int
	seq      int // order of construction
}

type eqWorld struct {
	mu     sync.Mutex
	recs   map[*EqConn]*eqRec
	invs   int
	events []string
}

var (
	eqMu  sync.Mutex
	eqCur *eqWorld
)

func eqSet(w *eqWorld) { eqMu.Lock(); eqCur = w; eqMu.Unlock() }
func eqGet() *eqWorld  { eqMu.Lock(); defer eqMu.Unlock(); return eqCur }

// Close records the close of exactly this pointer.
func (c *EqConn) Close() error {
	w := eqGet()
	if w == nil {
		return nil
	}
	w.mu.Lock()
	defer w.mu.Unlock()
	if r, ok := w.recs[c]; ok {
		r.closes++
		w.events = append(w.events, fmt.Sprintf("close inv%d.out%d", r.inv, r.out))
	} else {
		w.events = append(w.events, "close of an instance no constructor produced")
	}
	return nil
}

// eqMake produces n distinct, value-equal instances of one constructor invocation.
func eqMake(n int) []*EqConn {
	w := eqGet()
	out := make([]*EqConn, n)
	w.mu.Lock()
	defer w.mu.Unlock()
	w.invs++
	for i := range out {
		out[i] = &EqConn{DSN: "db://same", Port: 5432}
		w.recs[out[i]] = &eqRec{inv: w.invs, out: i, seq: len(w.recs)}
	}
	w.events = append(w.events, fmt.Sprintf("construct inv%d (%d outputs)", w.invs, n))
	return out
}

type eqOutNamed struct {
	godi.Out
	Primary *EqConn `name:"primary"`
	Replica *EqConn `name:"replica"`
}

type eqOutGroup struct {
	godi.Out
	A *EqConn `group:"pool"`
	B *EqConn `group:"pool"`
	C *EqConn `group:"pool"`
}

func eqCtorOutNamed() eqOutNamed { v := eqMake(2); return eqOutNamed{Primary: v[0], Replica: v[1]} }
func eqCtorOutGroup() eqOutGroup { v := eqMake(3); return eqOutGroup{A: v[0], B: v[1], C: v[2]} }
func eqCtorPair() (*EqConn, *EqConn) {
	v := eqMake(2)
	return v[0], v[1]
}
func eqCtorA() *EqConn { return eqMake(1)[0] }
func eqCtorB() *EqConn { return eqMake(1)[0] }
func eqCtorC() *EqConn { return eqMake(1)[0] }

type eqForm struct {
	name string
	add  func(c godi.Collection, life godi.Lifetime) error
	// what to resolve: keyed identities and groups, with the output index each must deliver
	keys   []string // key i must deliver output i of an invocation
	group  string   // group must deliver all nOut outputs of one invocation (multi-output forms) or one output per registration
	nOut   int
	perReg bool // separate registrations (one invocation per identity)
	plain  bool // a single unkeyed identity
}

func eqAdd(c godi.Collection, life godi.Lifetime, ctor any, opts ...godi.AddOption) error {
	switch life {
	case godi.Singleton:
		return c.AddSingleton(ctor, opts...)
	case godi.Scoped:
		return c.AddScoped(ctor, opts...)
	default:
		return c.AddTransient(ctor, opts...)
	}
}

var eqForms = []eqForm{
	{name: "out-named", nOut: 2, keys: []string{"primary", "replica"},
		add: func(c godi.Collection, l godi.Lifetime) error { return eqAdd(c, l, eqCtorOutNamed) }},
	{name: "out-grouped", nOut: 3, group: "pool",
		add: func(c godi.Collection, l godi.Lifetime) error { return eqAdd(c, l, eqCtorOutGroup) }},
	{name: "multi-return-grouped", nOut: 2, group: "pair",
		add: func(c godi.Collection, l godi.Lifetime) error { return eqAdd(c, l, eqCtorPair, godi.Group("pair")) }},
	{name: "separate-keyed", nOut: 1, perReg: true, keys: []string{"a", "b", "c"},
		add: func(c godi.Collection, l godi.Lifetime) error {
			if err := eqAdd(c, l, eqCtorA, godi.Name("a")); err != nil {
				return err
			}
			if err := eqAdd(c, l, eqCtorB, godi.Name("b")); err != nil {
				return err
			}
			return eqAdd(c, l, eqCtorC, godi.Name("c"))
		}},
	{name: "separate-grouped", nOut: 1, perReg: true, group: "each",
		add: func(c godi.Collection, l godi.Lifetime) error {
			if err := eqAdd(c, l, eqCtorA, godi.Group("each")); err != nil {
				return err
			}
			return eqAdd(c, l, eqCtorB, godi.Group("each"))
		}},
	{name: "plain", nOut: 1, plain: true,
		add: func(c godi.Collection, l godi.Lifetime) error { return eqAdd(c, l, eqCtorA) }},
}

// RunEqualValues executes the value-equal fixtures; disposal findings go to prop C10, identity
// findings to prop C04 (each check reports only its own).
func RunEqualValues(c *eng.Ctx, prop string, next func() (int, bool)) {
	lifes := []godi.Lifetime{godi.Singleton, godi.Scoped, godi.Transient}
	for _, f := range eqForms {
		for _, life := range lifes {
			idx, mine := next()
			if !mine {
				continue
			}
			c.R.Begin(idx)
			fs := eqCase(f, life)
			nt := false
			for _, x := range fs {
				if x.Clause == "(observed)" {
					nt = true
					continue
				}
				isDisposal := x.Clause == "never-closed" || x.Clause == "closed-twice" || x.Clause == "closed-early" || x.Clause == "close-of-unknown-instance"
				if (prop == "C10") != isDisposal {
					continue
				}
				c.R.Violation(eng.Violation{Prop: prop, Clause: x.Clause, Sig: prop + "/" + x.Clause + ":value-equal-instances:" + f.name + ":" + lifeName(life), Case: idx, CaseID: fmt.Sprintf("eq-%s-%s", f.name, lifeName(life)),
					Detail: x.Detail, Replay: map[string]any{"fixture": "value-equal-instances", "form": f.name, "lifetime": lifeName(life)}})
			}
			c.R.Count("value_equal_instance_cases", 1)
			c.R.End(idx, eng.Hash("eqvals", f.name, int(life)), nt)
		}
	}
}

func eqCase(f eqForm, life godi.Lifetime) (fs []Finding) {
	w := &eqWorld{recs: map[*EqConn]*eqRec{}}
	eqSet(w)
	defer eqSet(nil)
	add := func(clause, detail string) {
		w.mu.Lock()
		ev := append([]string{}, w.events...)
		w.mu.Unlock()
		fs = append(fs, Finding{clause, f.name, fmt.Sprintf("%s (%s, %s)\nevents: %v", detail, f.name, lifeName(life), ev)})
	}
	defer func() {
		if p := recover(); p != nil {
			add("panic", fmt.Sprintf("panic: %v", p))
		}
	}()
	coll := godi.NewCollection()
	if err := f.add(coll, life); err != nil {
		add("valid-add-rejected", "Add failed: "+err.Error())
		return
	}
	prov, err := coll.Build()
	if err != nil {
		add("valid-set-rejected", "Build failed: "+err.Error())
		return
	}
	recOf := func(p *EqConn) *eqRec {
		w.mu.Lock()
		defer w.mu.Unlock()
		return w.recs[p]
	}
	var scopes []godi.Scope
	// what each scope handed out, for the identity rules
	for si := 0; si < 2; si++ {
		s, err := prov.CreateScope(nil)
		if err != nil {
			add("panic", "CreateScope failed: "+err.Error())
			return
		}
		scopes = append(scopes, s)
		for round := 0; round < 2; round++ {
			var got []*EqConn
			for ki, k := range f.keys {
				v, err := godi.ResolveKeyed[*EqConn](s, k)
				if err != nil || v == nil {
					add("registered-identity-fails", fmt.Sprintf("ResolveKeyed(%q) = %v, %v", k, v, err))
					continue
				}
				r := recOf(v)
				switch {
				case r == nil:
					add("arg-wrong-producer", fmt.Sprintf("ResolveKeyed(%q) returned an instance no constructor produced", k))
				case !f.perReg && r.out != ki:
					add("arg-wrong-producer", fmt.Sprintf("ResolveKeyed(%q) returned output %d of the constructor, want output %d", k, r.out, ki))
				}
				got = append(got, v)
			}
			if f.group != "" {
				vs, err := godi.ResolveGroup[*EqConn](s, f.group)
				want := f.nOut
				if f.perReg {
					want = 2
				}
				if err != nil || len(vs) != want {
					add("registered-identity-fails", fmt.Sprintf("ResolveGroup(%q) = %d members, %v; want %d", f.group, len(vs), err, want))
				}
				seen := map[*EqConn]bool{}
				for _, v := range vs {
					if v == nil || recOf(v) == nil {
						add("arg-wrong-producer", fmt.Sprintf("ResolveGroup(%q) holds an instance no constructor produced", f.group))
						continue
					}
					if seen[v] {
						add("arg-wrong-producer", fmt.Sprintf("ResolveGroup(%q) holds one instance twice (value-equal outputs are distinct instances)", f.group))
					}
					seen[v] = true
				}
				got = append(got, vs...)
			}
			if f.plain {
				v, err := godi.Resolve[*EqConn](s)
				if err != nil || v == nil || recOf(v) == nil {
					add("registered-identity-fails", fmt.Sprintf("Resolve = %v, %v", v, err))
				} else {
					got = append(got, v)
				}
			}
			// distinct identities of one request round are distinct instances
			seen := map[*EqConn]bool{}
			for _, v := range got {
				if seen[v] {
					add("arg-wrong-producer", "two different identities resolved to one instance")
				}
				seen[v] = true
			}
		}
	}
	// nothing may be closed yet
	w.mu.Lock()
	total := len(w.recs)
	early := 0
	for _, r := range w.recs {
		if r.closes > 0 {
			early++
		}
	}
	w.mu.Unlock()
	if early > 0 {
		add("closed-early", fmt.Sprintf("%d instance(s) were closed before any Close was called", early))
	}
	for i := len(scopes) - 1; i >= 0; i-- {
		_ = scopes[i].Close()
		if life != godi.Singleton {
			// scoped/transient instances of that scope are due now; checked at the end per instance
		}
	}
	_ = prov.Close()
	w.mu.Lock()
	var never, twice []string
	unknown := 0
	for _, r := range w.recs {
		switch {
		case r.closes == 0:
			never = append(never, fmt.Sprintf("inv%d.out%d", r.inv, r.out))
		case r.closes > 1:
			twice = append(twice, fmt.Sprintf("inv%d.out%d x%d", r.inv, r.out, r.closes))
		}
	}
	for _, e := range w.events {
		if e == "close of an instance no constructor produced" {
			unknown++
		}
	}
	w.mu.Unlock()
	sort.Strings(never)
	sort.Strings(twice)
	if len(never) > 0 {
		add("never-closed", fmt.Sprintf("%d of %d value-equal instances were never closed although every scope and the provider were closed: %v", len(never), total, never))
	}
	if len(twice) > 0 {
		add("closed-twice", fmt.Sprintf("closed more than once: %v", twice))
	}
	if unknown > 0 {
		add("close-of-unknown-instance", fmt.Sprintf("%d Close calls hit instances no constructor produced", unknown))
	}
	if total > 0 {
		fs = append(fs, Finding{"(observed)", f.name, ""})
	}
	return fs
}

// ---- disposables handed out BY VALUE -------------------------------------------------------
//
// Close() error with a value receiver: a numbered handle (`type Handle int`) or a small struct.
// Such an instance may well equal the zero value of its type (handle 0, an all-empty struct) and
// is still an instance the container created and must close exactly once.

// EqHandle is a disposable integer handle.
type EqHandle int

// EqFlusher is a disposable struct whose zero value is a valid instance.
type EqFlusher struct {
	Name string
	N    int
}

type valWorld struct {
	mu           sync.Mutex
	handleMade   map[int]int
	handleClosed map[int]int
	flMade       int
	flClosed     int
	next         int
}

var (
	valMu  sync.Mutex
	valCur *valWorld
)

func valGet() *valWorld { valMu.Lock(); defer valMu.Unlock(); return valCur }

func (h EqHandle) Close() error {
	if w := valGet(); w != nil {
		w.mu.Lock()
		w.handleClosed[int(h)]++
		w.mu.Unlock()
	}
	return nil
}

func (f EqFlusher) Close() error {
	if w := valGet(); w != nil {
		w.mu.Lock()
		w.flClosed++
		w.mu.Unlock()
	}
	return nil
}

func eqNewHandle() EqHandle {
	w := valGet()
	w.mu.Lock()
	defer w.mu.Unlock()
	n := w.next
	w.next++
	w.handleMade[n]++
	return EqHandle(n) // the first one is handle 0
}

func eqNewFlusher() EqFlusher {
	w := valGet()
	w.mu.Lock()
	w.flMade++
	w.mu.Unlock()
	return EqFlusher{} // all fields empty
}

// RunValueDisposables: every lifetime x {integer handle, zero-valued struct}; resolutions through
// the provider (root scope), two scopes and a child scope; then everything is closed.
func RunValueDisposables(c *eng.Ctx, prop string, next func() (int, bool)) {
	for _, life := range []godi.Lifetime{godi.Singleton, godi.Scoped, godi.Transient} {
		for _, kind := range []string{"int-handle", "zero-struct"} {
			idx, mine := next()
			if !mine {
				continue
			}
			c.R.Begin(idx)
			w := &valWorld{handleMade: map[int]int{}, handleClosed: map[int]int{}}
			valMu.Lock()
			valCur = w
			valMu.Unlock()
			viol := func(clause, detail string) {
				c.R.Violation(eng.Violation{Prop: prop, Clause: clause, Sig: prop + "/" + clause + ":value-typed-disposable:" + kind + ":" + lifeName(life), Case: idx, CaseID: fmt.Sprintf("valdisp-%s-%s", kind, lifeName(life)),
					Detail: detail, Replay: map[string]any{"fixture": "value-typed-disposables", "kind": kind, "lifetime": lifeName(life)}})
			}
			func() {
				defer func() {
					if p := recover(); p != nil {
						viol("panic", fmt.Sprintf("panic: %v", p))
					}
				}()
				coll := godi.NewCollection()
				var err error
				if kind == "int-handle" {
					err = eqAdd(coll, life, eqNewHandle)
				} else {
					err = eqAdd(coll, life, eqNewFlusher)
				}
				if err != nil {
					c.R.Inconclusive(idx, "fixture registration refused: "+err.Error())
					return
				}
				prov, err := coll.Build()
				if err != nil {
					c.R.Inconclusive(idx, "fixture does not build: "+err.Error())
					return
				}
				resolve := func(p godi.Provider) {
					for k := 0; k < 3; k++ {
						if kind == "int-handle" {
							_, _ = godi.Resolve[EqHandle](p)
						} else {
							_, _ = godi.Resolve[EqFlusher](p)
						}
					}
				}
				resolve(prov)
				s1, _ := prov.CreateScope(nil)
				s2, _ := prov.CreateScope(nil)
				var c1 godi.Scope
				if s1 != nil {
					c1, _ = s1.CreateScope(nil)
				}
				for _, s := range []godi.Scope{s1, s2, c1} {
					if s != nil {
						resolve(s)
					}
				}
				w.mu.Lock()
				early := w.flClosed
				for _, n := range w.handleClosed {
					early += n
				}
				w.mu.Unlock()
				if early > 0 {
					viol("closed-early", fmt.Sprintf("%d Close events before any Close was called", early))
				}
				for _, s := range []godi.Scope{c1, s2, s1} {
					if s != nil {
						_ = s.Close()
					}
				}
				_ = prov.Close()
				w.mu.Lock()
				defer w.mu.Unlock()
				if kind == "int-handle" {
					var never, twice []int
					for h, made := range w.handleMade {
						switch n := w.handleClosed[h]; {
						case n < made:
							never = append(never, h)
						case n > made:
							twice = append(twice, h)
						}
					}
					sort.Ints(never)
					sort.Ints(twice)
					if len(never) > 0 {
						viol("never-closed", fmt.Sprintf("handles %v (of %d created, numbered from 0) were never closed although every scope and the provider were closed", never, len(w.handleMade)))
					}
					if len(twice) > 0 {
						viol("closed-twice", fmt.Sprintf("handles %v were closed more than once", twice))
					}
					c.R.Count("value_typed_disposables_created", int64(len(w.handleMade)))
				} else {
					if w.flClosed < w.flMade {
						viol("never-closed", fmt.Sprintf("%d zero-valued struct instances were created, only %d Close events", w.flMade, w.flClosed))
					}
					if w.flClosed > w.flMade {
						viol("closed-twice", fmt.Sprintf("%d zero-valued struct instances were created, %d Close events", w.flMade, w.flClosed))
					}
					c.R.Count("value_typed_disposables_created", int64(w.flMade))
				}
			}()
			valMu.Lock()
			valCur = nil
			valMu.Unlock()
			c.R.End(idx, eng.Hash("valdisp", kind, int(life)), true)
		}
	}
}
