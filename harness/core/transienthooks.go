package core

import (
	"fmt"
	"reflect"
	"sync"

	"github.com/junioryono/godi/v4"
	"github.com/junioryono/godi/v4/verifh/eng"
)

// Transient functions WITHOUT a service result ("hooks"). Registered under a Name they are
// ordinary identities: a parameter object may take one as an ordering dependency
// (`Audit struct{} `name:"audit"“) and callers may resolve it by key. "The constructor runs
// exactly once per request site" holds for them like for any transient: one run per field that
// asks for it and per keyed resolution - and none at all on behalf of nobody (at Build, at scope
// creation), whatever the container does with the result-less functions of OTHER lifetimes.

type thTok struct{ n int }

type thWorld struct {
	mu    sync.Mutex
	hooks map[string]int
	toks  int
}

func (w *thWorld) hit(name string) {
	w.mu.Lock()
	w.hooks[name]++
	w.mu.Unlock()
}

type thInitIn struct {
	godi.In
	Audit struct{} `name:"audit"`
}

type thSvc struct{}
type thSvcIn struct {
	godi.In
	Audit struct{} `name:"audit"`
	Trace struct{} `name:"trace"`
}

// RunTransientHooks runs the catalogue (C03).
func RunTransientHooks(c *eng.Ctx, next func() (int, bool)) {
	unit := reflect.TypeOf(struct{}{})
	variants := c.Pick(6, 24)
	for k := 0; k < variants; k++ {
		idx, mine := next()
		if !mine {
			continue
		}
		c.R.Begin(idx)
		withInit := k%2 == 0    // a scope initializer asks for the hook (one request site per scope)
		anonymous := k%3 == 1   // one more hook that nobody can name: no request site ever
		reversed := k%4 >= 2    // registration order
		singletonUser := k == 5 // a singleton's parameter object asks for it (one site, at Build)
		viol := func(clause, sig, detail string) {
			c.R.Violation(eng.Violation{Prop: "C03", Clause: clause, Sig: "C03/" + clause + ":" + sig, Case: idx, CaseID: fmt.Sprintf("transient-hooks-%d", k), Detail: detail,
				Replay: map[string]any{"fixture": "transient-hooks", "variant": k}})
		}
		w := &thWorld{hooks: map[string]int{}}
		func() {
			defer func() {
				if p := recover(); p != nil {
					viol("panic", "transient-hooks", fmt.Sprintf("panic: %v", p))
				}
			}()
			coll := godi.NewCollection()
			regs := []func() error{
				func() error {
					return coll.AddTransient(func() *thTok { w.mu.Lock(); defer w.mu.Unlock(); w.toks++; return &thTok{w.toks} })
				},
				func() error { return coll.AddTransient(func(*thTok) { w.hit("audit") }, godi.Name("audit")) },
				func() error { return coll.AddTransient(func() error { w.hit("trace"); return nil }, godi.Name("trace")) },
				func() error { return coll.AddScoped(func(thSvcIn) *thSvc { return &thSvc{} }) },
			}
			if withInit {
				regs = append(regs, func() error { return coll.AddScoped(func(thInitIn) { w.hit("scope-initializer") }) })
			}
			if anonymous {
				regs = append(regs, func() error { return coll.AddTransient(func(*thTok) { w.hit("anonymous") }) })
			}
			if singletonUser {
				regs = append(regs, func() error { return coll.AddSingleton(func(thInitIn) *FKDep { return &FKDep{} }) })
			}
			if reversed {
				for i, j := 0, len(regs)-1; i < j; i, j = i+1, j-1 {
					regs[i], regs[j] = regs[j], regs[i]
				}
			}
			for _, add := range regs {
				if err := add(); err != nil {
					c.R.Inconclusive(idx, "fixture registration refused: "+err.Error())
					return
				}
			}
			sites := map[string]int{} // request sites so far
			check := func(after string) bool {
				w.mu.Lock()
				defer w.mu.Unlock()
				ok := true
				for _, name := range []string{"audit", "trace", "anonymous"} {
					if w.hooks[name] != sites[name] {
						viol("ctor-count", "transient-without-result:"+name, fmt.Sprintf("after %s: %d request site(s) for the transient function %q (no service result), but it ran %d time(s)", after, sites[name], name, w.hooks[name]))
						ok = false
					}
				}
				if w.toks != sites["audit"] {
					viol("ctor-without-request", "dependency-of-transient-without-result", fmt.Sprintf("after %s: %d transient dependency instance(s) constructed for %d run(s) the hook was asked for", after, w.toks, sites["audit"]))
					ok = false
				}
				return ok
			}
			prov, err := coll.Build()
			if err != nil {
				c.R.Inconclusive(idx, "fixture does not build: "+err.Error())
				return
			}
			defer prov.Close()
			if withInit {
				sites["audit"]++ // the root scope's initializer
			}
			if singletonUser {
				sites["audit"]++
			}
			if !check("Build") {
				return
			}
			var scopes []godi.Scope
			for i := 0; i < 3; i++ {
				var parent godi.Provider = prov
				if i == 2 {
					parent = scopes[0]
				}
				sc, err := parent.CreateScope(nil)
				if err != nil {
					c.R.Inconclusive(idx, "scope creation failed: "+err.Error())
					return
				}
				scopes = append(scopes, sc)
				if withInit {
					sites["audit"]++
				}
				if !check(fmt.Sprintf("CreateScope #%d", i+1)) {
					return
				}
			}
			for i, sc := range scopes {
				if _, err := sc.GetKeyed(unit, "audit"); err != nil {
					viol("resolution-failed", "transient-without-result:keyed", fmt.Sprintf("GetKeyed(struct{}, \"audit\") failed: %v", err))
					return
				}
				sites["audit"]++
				if _, err := godi.Resolve[*thSvc](sc); err != nil {
					viol("resolution-failed", "transient-without-result:field", fmt.Sprintf("a scoped service with ordering dependencies on transient functions failed: %v", err))
					return
				}
				sites["audit"]++
				sites["trace"]++
				if _, err := godi.Resolve[*thSvc](sc); err != nil { // cached: no new site
					return
				}
				if !check(fmt.Sprintf("resolutions in scope #%d", i+1)) {
					return
				}
				c.R.Count("transient_hook_request_sites", 3)
			}
			c.R.Count("transient_hook_cases", 1)
		}()
		c.R.End(idx, eng.Hash("c03-transient-hooks", k), true)
	}
}
