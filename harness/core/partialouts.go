package core

import (
	"errors"
	"fmt"
	"reflect"
	"strings"
	"sync"

	"github.com/junioryono/godi/v4"
	"github.com/junioryono/godi/v4/verifh/eng"
)

// Constructors with several outputs of which one is nil on the first invocation.
//
// A nil output of a multi-return constructor or a nil field of a result object is "no instance
// for this service": resolving that service fails, the constructor may be invoked again later
// ("a failed construction yields no instance and may be retried") and then produce it. The other
// outputs of the first invocation were real instances and have been handed out. Whatever the
// retry produces for THEM, a scope keeps serving the instance it already served (C02), and every
// instance the container created - first or second invocation - is closed exactly once (C10).

type poA struct{ n int }
type poB struct{ n int }

type poWorld struct {
	mu     sync.Mutex
	calls  int
	made   map[*poB]int // -> invocation
	closed map[*poB]int
	madeS  map[*poS]int // "same object" forms
	closeS map[*poS]int
}

// poS / poI: the "same object" forms - a constructor func() (*poS, poI) whose retry returns ONE
// object for both outputs (a cache that also is the store): the scope already served the poI of
// the first invocation and must keep serving it.
type poI interface{ PoN() int }
type poS struct{ n int }

func (x *poS) PoN() int { return x.n }
func (x *poS) Close() error {
	if w := poGet(); w != nil {
		w.mu.Lock()
		w.closeS[x]++
		w.mu.Unlock()
	}
	return nil
}

func poMakeSame() (*poS, poI) {
	w := poGet()
	w.mu.Lock()
	defer w.mu.Unlock()
	w.calls++
	x := &poS{w.calls}
	w.madeS[x] = w.calls
	if w.calls == 1 {
		return nil, x // the first invocation has no *poS, only the poI
	}
	return x, x
}

type poOutSame struct {
	godi.Out
	S *poS
	I poI
}

func poCtorMRSame() (*poS, poI) { return poMakeSame() }
func poCtorOutSame() poOutSame  { s, i := poMakeSame(); return poOutSame{S: s, I: i} }

var (
	poMu  sync.Mutex
	poCur *poWorld
)

func poGet() *poWorld { poMu.Lock(); defer poMu.Unlock(); return poCur }

func (b *poB) Close() error {
	if w := poGet(); w != nil {
		w.mu.Lock()
		w.closed[b]++
		w.mu.Unlock()
	}
	return nil
}

func poMake() (*poA, *poB) {
	w := poGet()
	w.mu.Lock()
	defer w.mu.Unlock()
	w.calls++
	b := &poB{w.calls}
	w.made[b] = w.calls
	if w.calls == 1 {
		return nil, b // the first invocation has no A
	}
	return &poA{w.calls}, b
}

type poOut struct {
	godi.Out
	A *poA
	B *poB
}

type poUser struct{ b *poB }

func poNewUser(b *poB) *poUser { return &poUser{b} }

func poCtorMR() (*poA, *poB) { return poMake() }
func poCtorOut() poOut       { a, b := poMake(); return poOut{A: a, B: b} }

// RunPartialOutputs: forms x lifetimes; prop selects which findings are reported.
func RunPartialOutputs(c *eng.Ctx, prop string, next func() (int, bool)) {
	for _, form := range []string{"multi-return", "out-struct", "multi-return:retry-returns-one-object-twice", "out-struct:retry-returns-one-object-twice",
		"multi-return:nil-output-requested-first", "out-struct:nil-output-requested-first"} {
		for _, life := range []godi.Lifetime{godi.Scoped, godi.Singleton, godi.Transient} {
			idx, mine := next()
			if !mine {
				continue
			}
			c.R.Begin(idx)
			rounds := 1
			if life == godi.Singleton {
				rounds = 48 // which output Build visits first follows map order
			}
			reported := map[string]bool{}
			for round := 0; round < rounds; round++ {
				for _, f := range poCase(form, life) {
					isC10 := f.Clause == "never-closed" || f.Clause == "closed-twice"
					isC07 := f.Clause == "captive-dependency-accepted"
					if prop == "C15" {
						// "a failed resolution ... leaves only the services that were successfully
						// constructed on the way (still owned and later disposed by the scope)"
						if f.Clause != "never-closed" || reported[f.Clause] {
							continue
						}
						f.Clause = "survivor-never-closed"
					} else if (prop == "C10") != isC10 || (prop == "C07") != isC07 || reported[f.Clause] {
						continue
					}
					reported[f.Clause] = true
					c.R.Violation(eng.Violation{Prop: prop, Clause: f.Clause, Sig: prop + "/" + f.Clause + ":output-nil-on-first-invocation:" + form + ":" + lifeName(life), Case: idx, CaseID: "partial-outputs-" + form + "-" + lifeName(life),
						Detail: f.Detail, Replay: map[string]any{"fixture": "partial-outputs", "form": form, "lifetime": lifeName(life)}})
				}
				c.R.Count("partial_output_histories", 1)
			}
			c.R.End(idx, eng.Hash("partial-outputs", prop, form, int(life)), true)
		}
	}
}

func poCase(form string, life godi.Lifetime) (fs []Finding) {
	w := &poWorld{made: map[*poB]int{}, closed: map[*poB]int{}, madeS: map[*poS]int{}, closeS: map[*poS]int{}}
	poMu.Lock()
	poCur = w
	poMu.Unlock()
	defer func() { poMu.Lock(); poCur = nil; poMu.Unlock() }()
	add := func(clause, detail string) {
		fs = append(fs, Finding{clause, form, fmt.Sprintf("%s (%s, %s; the constructor's first invocation returns no A)", detail, form, lifeName(life))})
	}
	defer func() {
		if p := recover(); p != nil {
			add("panic", fmt.Sprintf("panic: %v", p))
		}
	}()
	coll := godi.NewCollection()
	var err error
	same := false
	nilFirst := strings.HasSuffix(form, ":nil-output-requested-first")
	switch form {
	case "multi-return", "multi-return:nil-output-requested-first":
		err = eqAdd(coll, life, poCtorMR)
	case "out-struct", "out-struct:nil-output-requested-first":
		err = eqAdd(coll, life, poCtorOut)
	case "multi-return:retry-returns-one-object-twice":
		same = true
		err = eqAdd(coll, life, poCtorMRSame)
	default:
		same = true
		err = eqAdd(coll, life, poCtorOutSame)
	}
	if err != nil {
		return
	}
	prov, berr := coll.Build()
	if berr == nil {
		for si := 0; si < 2; si++ {
			s, serr := prov.CreateScope(nil)
			if serr != nil {
				continue
			}
			if same {
				i1, e1 := godi.Resolve[poI](s)
				_, _ = godi.Resolve[*poS](s) // may run the constructor again
				_, _ = godi.Resolve[*poS](s)
				i2, e2 := godi.Resolve[poI](s)
				if e1 == nil && e2 == nil && i1 != i2 {
					switch life {
					case godi.Scoped:
						add("two-instances-in-one-scope", fmt.Sprintf("one scope returned two instances of the scoped poI: first the object of invocation %d, after *poS had been resolved the object of invocation %d", i1.PoN(), i2.PoN()))
					case godi.Singleton:
						add("identity", fmt.Sprintf("the singleton poI changed from the object of invocation %d to that of invocation %d after *poS had been resolved", i1.PoN(), i2.PoN()))
					}
				}
				_ = s.Close()
				continue
			}
			if nilFirst {
				// the output that the first invocation leaves nil is asked for first: the
				// resolution fails, the B of that invocation exists and belongs to the scope
				_, _ = godi.Resolve[*poA](s)
			}
			b1, e1 := godi.Resolve[*poB](s)
			_, _ = godi.Resolve[*poA](s) // may run the constructor again
			_, _ = godi.Resolve[*poA](s)
			b2, e2 := godi.Resolve[*poB](s)
			if life == godi.Scoped && e1 == nil && e2 == nil && b1 != b2 {
				add("two-instances-in-one-scope", fmt.Sprintf("one scope returned two instances of the scoped B: first the B of invocation %d, after A had been resolved the B of invocation %d", b1.n, b2.n))
			}
			if life == godi.Singleton && e1 == nil && e2 == nil && b1 != b2 {
				add("identity", fmt.Sprintf("the singleton B changed from the instance of invocation %d to that of invocation %d after A had been resolved", b1.n, b2.n))
			}
			_ = s.Close()
		}
		_ = prov.Close()
		// the collection is extended and built again: a singleton / transient that takes the
		// scoped B is a captive dependency, whatever the first provider has been through
		if life == godi.Scoped && !same {
			for _, cl := range []godi.Lifetime{godi.Singleton, godi.Transient} {
				err := eqAdd(coll, cl, poNewUser)
				if err != nil {
					break
				}
				p2, berr2 := coll.Build()
				var lce *godi.LifetimeConflictError
				var lcv godi.LifetimeConflictError
				if berr2 == nil {
					add("captive-dependency-accepted", fmt.Sprintf("after a provider of the collection had retried the constructor, a %s func(*poB) *poUser was registered and Build accepted it although *poB is registered as scoped", lifeName(cl)))
					_ = p2.Close()
				} else if !errors.As(berr2, &lce) && !errors.As(berr2, &lcv) {
					add("captive-dependency-accepted", fmt.Sprintf("the second Build failed, but not with a lifetime conflict: %v", berr2))
				}
				coll.Remove(reflect.TypeOf((*poUser)(nil)))
			}
		}
	}
	// whatever Build said: every B the constructor made was created by the container
	w.mu.Lock()
	defer w.mu.Unlock()
	for x, inv := range w.madeS {
		switch n := w.closeS[x]; {
		case n == 0:
			add("never-closed", fmt.Sprintf("the object of invocation %d (of %d) was never closed (Build error: %v)", inv, w.calls, berr))
		case n > 1:
			add("closed-twice", fmt.Sprintf("the object of invocation %d, returned for both outputs, was closed %d times", inv, n))
		}
	}
	for b, inv := range w.made {
		switch n := w.closed[b]; {
		case n == 0:
			add("never-closed", fmt.Sprintf("the B of invocation %d (of %d) was never closed (Build error: %v)", inv, w.calls, berr))
		case n > 1:
			add("closed-twice", fmt.Sprintf("the B of invocation %d was closed %d times", inv, n))
		}
	}
	return fs
}
