package core

import (
	"context"
	"errors"
	"fmt"
	"hash/fnv"
	"reflect"
	"runtime"
	"sort"
	"strings"
	"sync"
	"time"

	"github.com/junioryono/godi/v4"
	"github.com/junioryono/godi/v4/verifh/pool"
	"github.com/junioryono/godi/v4/verifh/rt"
)

// OpKind enumerates script operations.
type OpKind uint8

const (
	OpBuild OpKind = iota
	OpCreate
	OpGet      // Get / GetKeyed (Key != "")
	OpGetGroup // GetGroup
	OpClose
	OpCloseProvider
	OpCancel // cancel the context the scope was created with, then wait (bounded) until it is disposed
	// OpGetForeignKey: GetKeyed with a key that is NOT the registered name: a value of another Go
	// type with the same underlying string (type altKey string), which no registration has
	OpGetForeignKey
)

type altKey string

// Op is one scripted operation. Scope 0 is the provider itself (its root scope).
type Op struct {
	Kind    OpKind `json:"kind"`
	Scope   int    `json:"scope"`
	Type    string `json:"type,omitempty"`
	Key     string `json:"key,omitempty"`
	Group   string `json:"group,omitempty"`
	Generic bool   `json:"generic,omitempty"` // through godi.Resolve*/ResolveKeyed/ResolveGroup
	CtxKind int    `json:"ctx,omitempty"`     // OpCreate: 0 nil ctx, 1 Background, 2 cancellable, 3 cancellable with value, 4 derived from the parent scope context (value), 5 derived from it and cancellable
}

func (o Op) String() string {
	sc := fmt.Sprintf("s%d", o.Scope)
	if o.Scope == 0 {
		sc = "provider"
	}
	g := ""
	if o.Generic {
		g = "generic "
	}
	switch o.Kind {
	case OpBuild:
		return "Build"
	case OpCreate:
		return fmt.Sprintf("%s.CreateScope(ctx%d)", sc, o.CtxKind)
	case OpGet:
		if o.Key != "" {
			return fmt.Sprintf("%s%s.GetKeyed(%s,%q)", g, sc, o.Type, o.Key)
		}
		return fmt.Sprintf("%s%s.Get(%s)", g, sc, o.Type)
	case OpGetGroup:
		return fmt.Sprintf("%s%s.GetGroup(%s,%q)", g, sc, o.Type, o.Group)
	case OpClose:
		return sc + ".Close"
	case OpCloseProvider:
		return "provider.Close"
	case OpCancel:
		return sc + ".cancel-ctx"
	case OpGetForeignKey:
		return fmt.Sprintf("%s.GetKeyed(%s, altKey(%q)) [a defined string type, not the registered string]", sc, o.Type, o.Key)
	}
	return "?"
}

// OpResult is what one executed operation returned.
type OpResult struct {
	Op       int
	Call     int64
	Ret      int64
	Class    string // ok | not-found | scope-disposed | provider-disposed | ctor-error | ctor-panic | circular | lifetime | other:<T> | PANIC
	Insts    []*rt.Inst
	IsNil    bool // ok but the value was nil / not a pool instance
	NewScope int  // OpCreate: harness id of the created scope (0 if none)
	Err      error
	Panic    any
	Value    any // raw value (only kept when Run.KeepValues)
}

// ScopeH is the harness's handle on a scope.
type ScopeH struct {
	S      godi.Scope
	Parent int
	Cancel context.CancelFunc
	CtxKey any
	Closed bool // a Close/cancel/provider close was issued by the script (sequential bookkeeping)
}

// Run is one execution of a spec + script against real godi.
type Run struct {
	mu             sync.Mutex
	Spec           *Spec
	Model          *Model
	Rec            *rt.Recorder
	Coll           godi.Collection
	Prov           godi.Provider
	RegErrs        []error
	RegPanics      []any
	BuildErr       error
	BuildPanic     any
	Built          bool
	Scopes         []*ScopeH // index 0: provider pseudo-scope
	Results        []OpResult
	Ops            []Op
	Poisoned       bool        // a panic escaped from godi: stop using this provider
	EditAfterBuild bool        // standardScript: edit the collection right after Build
	kept           []keptSlice // group slices returned by godi that the harness kept untouched
	sliceFs        []Finding   // kept slices that changed afterwards
	sib            *sibling    // KeepSibling: the provider of the intermediate Build
	BuildDoor      int         // 0 Build, 1 BuildWithContext, 2 BuildWithOptions(nil), 3 BuildWithOptions(BuildTimeout: a minute)
	sibFs          []Finding
	KeepValues     bool
	Values         map[int]*rt.Inst // instance values registered (reg index -> inst)
}

// BuildDoors (set by the properties that judge Build's verdict): specs are built through Build,
// BuildWithContext, BuildWithOptions(nil) and BuildWithOptions(BuildTimeout) in turn.
var BuildDoors bool

type ctxKeyT struct{ n int }

// NewRun registers the spec into a fresh collection (under a fresh recorder).
func NewRun(s *Spec, m *Model, faults []rt.Fault, closeFaults []rt.CloseFault) *Run {
	r := &Run{Spec: s, Model: m, Rec: rt.NewRecorder(), Values: map[int]*rt.Inst{}}
	if BuildDoors {
		// the three ways of building a provider must agree: which one a spec goes through is a
		// function of the spec (so that a case and its replay use the same one)
		h := fnv.New32a()
		_, _ = h.Write([]byte(s.Canon()))
		r.BuildDoor = int(h.Sum32() % 4)
	}
	r.Rec.SetFaults(faults, closeFaults)
	r.Coll = godi.NewCollection()
	r.RegErrs = make([]error, len(s.Regs))
	r.RegPanics = make([]any, len(s.Regs))
	for i, reg := range s.Regs {
		if s.RebuildAfter > 0 && i == s.RebuildAfter {
			func() {
				defer func() { _ = recover() }()
				r.Rec.NoLog = true
				if p, err := r.Coll.Build(); err == nil && p != nil {
					// use the intermediate provider like an application would: one scope, every
					// registered identity resolved once (so whatever godi remembers per
					// constructor / parameter object / descriptor has been exercised against a
					// registry that is about to change), then everything closed
					func() {
						defer func() { _ = recover() }()
						if sc, serr := p.CreateScope(nil); serr == nil && sc != nil {
							for _, d := range r.Coll.ToSlice() {
								if d == nil || d.Type == nil {
									continue
								}
								switch {
								case d.Group != "":
									_, _ = sc.GetGroup(d.Type, d.Group)
								case d.Key != nil:
									_, _ = sc.GetKeyed(d.Type, d.Key)
								default:
									_, _ = sc.Get(d.Type)
								}
							}
							_ = sc.Close()
						}
					}()
					if s.KeepSibling && len(faults) == 0 && len(closeFaults) == 0 {
						r.keepSibling(p)
					} else {
						_ = p.Close()
					}
				}
			}()
			r.Rec.NoLog = false
		}
		func() {
			defer func() {
				if p := recover(); p != nil {
					r.RegPanics[i] = p
				}
			}()
			if reg.Remove {
				r.RegErrs[i] = reg.AddTo(r.Coll)
				return
			}
			if reg.Ctor < 0 {
				v := pool.Types[reg.Value].NewValue()
				inst := rt.InstOf(v)
				r.Rec.NewValueInst(inst, reg.Value)
				r.Values[i] = inst
				r.RegErrs[i] = addValue(r.Coll, reg, v)
				return
			}
			r.RegErrs[i] = reg.AddTo(r.Coll)
		}()
	}
	r.Scopes = []*ScopeH{{}}
	return r
}

// EditCollectionAfterBuild removes every registered identity from the COLLECTION after the
// provider has been built (and registers a few constructors again under identities that are
// now free). "A provider that has been built is unaffected by later changes to the collection":
// whatever the run observes afterwards must be what it would have observed without the edits.
func (r *Run) EditCollectionAfterBuild() {
	if !r.Built {
		return
	}
	defer func() { _ = recover() }()
	var iks []IdentKey
	for ik := range r.Model.Services {
		iks = append(iks, ik)
	}
	sort.Slice(iks, func(i, j int) bool { return iks[i].Type+"\x00"+iks[i].Key < iks[j].Type+"\x00"+iks[j].Key })
	r.Rec.NoLog = true
	defer func() { r.Rec.NoLog = false }()
	for _, ik := range iks {
		(Reg{Remove: true, RmType: ik.Type, RmKey: ik.Key}).AddTo(r.Coll)
	}
	// identities are free now: other constructors take two of them
	for i, ik := range iks {
		if i >= 2 {
			break
		}
		if ti, ok := pool.Types[ik.Type]; ok && !ti.Iface && strings.HasPrefix(ik.Type, "K") {
			_ = (Reg{Ctor: pool.ByName("Leaf_" + ik.Type + "_c").ID, Life: godi.Transient, Name: ik.Key}).AddTo(r.Coll)
		}
	}
}

func addValue(c godi.Collection, reg Reg, v any) error {
	var opts []godi.AddOption
	if reg.Name != "" {
		opts = append(opts, godi.Name(reg.Name))
	}
	if reg.Group != "" {
		opts = append(opts, godi.Group(reg.Group))
	}
	for _, a := range reg.As {
		opts = append(opts, pool.AsOption(a))
	}
	switch reg.Life {
	case godi.Singleton:
		return c.AddSingleton(v, opts...)
	case godi.Scoped:
		return c.AddScoped(v, opts...)
	default:
		return c.AddTransient(v, opts...)
	}
}

// Build runs Collection.Build as operation index -1... recorded as op "Build".
func (r *Run) Build() {
	opIdx := len(r.Ops)
	r.Ops = append(r.Ops, Op{Kind: OpBuild})
	res := OpResult{Op: opIdx}
	res.Call = r.Rec.BeginOp(opIdx, 0, "Build")
	func() {
		defer func() {
			if p := recover(); p != nil {
				r.BuildPanic = p
				r.Poisoned = true
			}
		}()
		switch r.BuildDoor {
		case 1:
			r.Prov, r.BuildErr = r.Coll.BuildWithContext(context.Background())
		case 2:
			r.Prov, r.BuildErr = r.Coll.BuildWithOptions(nil)
		case 3:
			r.Prov, r.BuildErr = r.Coll.BuildWithOptions(&godi.ProviderOptions{BuildTimeout: time.Minute})
		default:
			r.Prov, r.BuildErr = r.Coll.Build()
		}
	}()
	switch {
	case r.BuildPanic != nil:
		res.Class = "PANIC"
		res.Panic = r.BuildPanic
	default:
		res.Class = Classify(r.BuildErr)
		res.Err = r.BuildErr
	}
	res.Ret = r.Rec.EndOp(opIdx, 0, res.Class)
	r.Built = r.BuildErr == nil && r.BuildPanic == nil && r.Prov != nil
	r.Results = append(r.Results, res)
	r.checkSibling("after the edited collection was built again")
}

// BuildCancelledAt runs BuildWithContext with a context that is cancelled from inside the
// n-th constructor invocation of the Build (n >= 1): Build must notice the cancellation before
// the next singleton and fail, cleaning up what it created.
func (r *Run) BuildCancelledAt(n int) {
	opIdx := len(r.Ops)
	r.Ops = append(r.Ops, Op{Kind: OpBuild})
	res := OpResult{Op: opIdx}
	ctx, cancel := context.WithCancel(context.Background())
	defer cancel()
	var mu sync.Mutex
	seen := 0
	r.Rec.SetHook(func(hp rt.HookPoint) {
		if hp.Where != "ctor" {
			return
		}
		mu.Lock()
		seen++
		hit := seen == n
		mu.Unlock()
		if hit {
			cancel()
		}
	})
	res.Call = r.Rec.BeginOp(opIdx, 0, fmt.Sprintf("BuildWithContext (cancelled inside constructor invocation %d)", n))
	func() {
		defer func() {
			if p := recover(); p != nil {
				r.BuildPanic = p
				r.Poisoned = true
			}
		}()
		r.Prov, r.BuildErr = r.Coll.BuildWithContext(ctx)
	}()
	r.Rec.SetHook(nil)
	switch {
	case r.BuildPanic != nil:
		res.Class = "PANIC"
		res.Panic = r.BuildPanic
	default:
		res.Class = Classify(r.BuildErr)
		res.Err = r.BuildErr
	}
	res.Ret = r.Rec.EndOp(opIdx, 0, res.Class)
	r.Built = r.BuildErr == nil && r.BuildPanic == nil && r.Prov != nil
	r.Results = append(r.Results, res)
}

// BuildTimeoutAt runs BuildWithOptions with a short BuildTimeout while the n-th constructor
// invocation of the Build outlasts it: Build must notice the expiry before the next singleton
// and fail, cleaning up what it created (or succeed when that was the last one).
func (r *Run) BuildTimeoutAt(n int) {
	opIdx := len(r.Ops)
	r.Ops = append(r.Ops, Op{Kind: OpBuild})
	res := OpResult{Op: opIdx}
	var mu sync.Mutex
	seen := 0
	r.Rec.SetHook(func(hp rt.HookPoint) {
		if hp.Where != "ctor" {
			return
		}
		mu.Lock()
		seen++
		hit := seen == n
		mu.Unlock()
		if hit {
			time.Sleep(45 * time.Millisecond)
		}
	})
	res.Call = r.Rec.BeginOp(opIdx, 0, fmt.Sprintf("BuildWithOptions(BuildTimeout) expiring inside constructor invocation %d", n))
	func() {
		defer func() {
			if p := recover(); p != nil {
				r.BuildPanic = p
				r.Poisoned = true
			}
		}()
		r.Prov, r.BuildErr = r.Coll.BuildWithOptions(&godi.ProviderOptions{BuildTimeout: 15 * time.Millisecond})
	}()
	r.Rec.SetHook(nil)
	switch {
	case r.BuildPanic != nil:
		res.Class = "PANIC"
		res.Panic = r.BuildPanic
	default:
		res.Class = Classify(r.BuildErr)
		res.Err = r.BuildErr
	}
	res.Ret = r.Rec.EndOp(opIdx, 0, res.Class)
	r.Built = r.BuildErr == nil && r.BuildPanic == nil && r.Prov != nil
	r.Results = append(r.Results, res)
}

// target returns the godi.Provider behind harness scope id.
func (r *Run) target(scope int) godi.Provider {
	if scope == 0 {
		return r.Prov
	}
	if scope < len(r.Scopes) && r.Scopes[scope] != nil && r.Scopes[scope].S != nil {
		return r.Scopes[scope].S
	}
	return nil
}

// Do executes one operation (no-op if the run is poisoned or the target scope does not exist).
func (r *Run) Do(o Op) OpResult {
	r.mu.Lock()
	opIdx := len(r.Ops)
	r.Ops = append(r.Ops, o)
	r.Results = append(r.Results, OpResult{Op: opIdx, Class: "pending"})
	poisoned := r.Poisoned || !r.Built
	tgt := r.target(o.Scope)
	r.mu.Unlock()
	res := OpResult{Op: opIdx}
	store := func() OpResult {
		r.mu.Lock()
		r.Results[opIdx] = res
		r.mu.Unlock()
		return res
	}
	if poisoned {
		res.Class = "skipped"
		return store()
	}
	if tgt == nil && o.Kind != OpCloseProvider {
		res.Class = "skipped"
		return store()
	}
	res.Call = r.Rec.BeginOp(opIdx, o.Scope, o.String())
	var val any
	var vals []any
	var err error
	func() {
		defer func() {
			if p := recover(); p != nil {
				res.Panic = p
				r.mu.Lock()
				r.Poisoned = true
				r.mu.Unlock()
			}
		}()
		switch o.Kind {
		case OpCreate:
			var ctx context.Context
			var cancel context.CancelFunc
			var key any
			switch o.CtxKind {
			case 1:
				ctx = context.Background()
			case 2:
				ctx, cancel = context.WithCancel(context.Background())
			case 3:
				key = ctxKeyT{opIdx}
				ctx, cancel = context.WithCancel(context.WithValue(context.Background(), key, opIdx))
			case 4, 5:
				// contexts derived from the PARENT SCOPE's own context (a sub-operation of a
				// request): 4 = value only (ends with the parent), 5 = cancellable by the caller
				base := context.Background()
				if ps, ok := tgt.(godi.Scope); ok {
					base = ps.Context()
				}
				key = ctxKeyT{opIdx}
				ctx = context.WithValue(base, key, opIdx)
				if o.CtxKind == 5 {
					ctx, cancel = context.WithCancel(ctx)
				}
			}
			var s godi.Scope
			s, err = tgt.CreateScope(ctx)
			if err == nil && s != nil {
				r.mu.Lock()
				r.Scopes = append(r.Scopes, &ScopeH{S: s, Parent: o.Scope, Cancel: cancel, CtxKey: key})
				res.NewScope = len(r.Scopes) - 1
				r.mu.Unlock()
			} else {
				if err != nil && s != nil {
					// a value next to the error: what callers test with `if sc != nil { defer sc.Close() }`
					r.mu.Lock()
					r.sliceFs = append(r.sliceFs, Finding{"value-returned-with-error", "CreateScope", fmt.Sprintf("op%d %s returned an error (%v) together with a non-nil Scope value (%T)", opIdx, o.String(), trimErr(err), s)})
					r.mu.Unlock()
				}
				if cancel != nil {
					cancel()
				}
			}
		case OpGet:
			t := pool.T(o.Type)
			switch {
			case o.Generic && o.Key != "":
				val, err = pool.ResolveKeyedFn[o.Type](tgt, o.Key)
			case o.Generic:
				val, err = pool.ResolveFn[o.Type](tgt)
			case o.Key != "":
				val, err = tgt.GetKeyed(t, o.Key)
			default:
				val, err = tgt.Get(t)
			}
		case OpGetForeignKey:
			val, err = tgt.GetKeyed(pool.T(o.Type), altKey(o.Key))
		case OpGetGroup:
			if o.Generic {
				vals, err = pool.ResolveGroupFn[o.Type](tgt, o.Group)
			} else {
				vals, err = tgt.GetGroup(pool.T(o.Type), o.Group)
			}
		case OpClose:
			err = tgt.(godi.Scope).Close()
			r.mu.Lock()
			r.markClosed(o.Scope)
			r.mu.Unlock()
		case OpCloseProvider:
			err = r.Prov.Close()
			r.mu.Lock()
			for i := range r.Scopes {
				r.Scopes[i].Closed = true
			}
			r.mu.Unlock()
		case OpCancel:
			r.mu.Lock()
			c := r.Scopes[o.Scope].Cancel
			r.mu.Unlock()
			if c != nil {
				c()
				r.mu.Lock()
				r.markClosed(o.Scope)
				r.mu.Unlock()
				// bounded progress: the watcher goroutine must close the scope. Only it has to
				// run; the bound (20000 x (Gosched + 100us) >= 2 s of pure sleeping) is generous and
				// its expiry is reported as its own result class, never silently.
				sc := tgt.(godi.Scope)
				disposed := false
				for i := 0; i < 20000 && !disposed; i++ {
					if _, gerr := sc.Get(scopeT); errors.Is(gerr, godi.ErrScopeDisposed) {
						disposed = true
						break
					}
					runtime.Gosched()
					if i > 10 {
						time.Sleep(100 * time.Microsecond)
					}
				}
				if !disposed {
					err = errCancelNotClosed
				}
			}
		}
	}()
	if res.Panic != nil {
		res.Class = "PANIC"
	} else {
		res.Class = Classify(err)
		res.Err = err
		if err == nil {
			switch o.Kind {
			case OpGet:
				if in := rt.InstOf(val); in != nil {
					res.Insts = []*rt.Inst{in}
				} else {
					res.IsNil = true
				}
			case OpGetGroup:
				for _, v := range vals {
					res.Insts = append(res.Insts, rt.InstOf(v))
				}
				if !o.Generic && !r.KeepValues {
					// the returned slice belongs to the caller. Alternately the harness behaves
					// like a caller that modifies it (in-place filter: later results must not
					// change) and like one that keeps it (it must still hold what was returned
					// when later resolutions have run)
					r.mu.Lock()
					if opIdx%2 == 0 {
						for i := range vals {
							vals[i] = nil
						}
						if cap(vals) > len(vals) {
							_ = append(vals, nil)
						}
					} else {
						r.kept = append(r.kept, keptSlice{op: opIdx, text: o.String(), vals: vals, insts: append([]*rt.Inst(nil), res.Insts...)})
					}
					r.mu.Unlock()
				}
			}
			r.verifyKept(opIdx)
			if o.Kind == OpGetForeignKey {
				r.mu.Lock()
				r.sliceFs = append(r.sliceFs, Finding{"foreign-key-served", "", fmt.Sprintf("op%d %s returned a service although nothing is registered under that key (keys are compared as values: a different Go type is a different key)", opIdx, o.String())})
				r.mu.Unlock()
			}
			if r.KeepValues {
				if o.Kind == OpGetGroup {
					res.Value = vals
				} else {
					res.Value = val
				}
			}
		}
	}
	res.Ret = r.Rec.EndOp(opIdx, o.Scope, res.Class)
	return store()
}

type keptSlice struct {
	op    int
	text  string
	vals  []any
	insts []*rt.Inst
	bad   bool
}

// verifyKept checks, after operation now, that every group slice the harness kept still holds
// the instances godi returned in it.
func (r *Run) verifyKept(now int) {
	r.mu.Lock()
	defer r.mu.Unlock()
	for k := range r.kept {
		ks := &r.kept[k]
		if ks.bad || ks.op == now {
			continue
		}
		for i, v := range ks.vals {
			if i < len(ks.insts) && rt.InstOf(v) != ks.insts[i] {
				ks.bad = true
				r.sliceFs = append(r.sliceFs, Finding{"returned-group-slice-changed", "", fmt.Sprintf("the slice returned by op%d %s was kept by the caller untouched; after op%d its element %d is no longer the instance that was returned in it (another resolution wrote into memory that belongs to the caller)", ks.op, ks.text, now, i)})
				break
			}
		}
	}
}

// SliceFindings: kept group slices that changed behind the caller's back.
func (r *Run) SliceFindings() []Finding {
	r.mu.Lock()
	defer r.mu.Unlock()
	return append([]Finding(nil), r.sliceFs...)
}

func (r *Run) markClosed(scope int) {
	r.Scopes[scope].Closed = true
	for i, s := range r.Scopes {
		if i > 0 && s.Parent == scope && !s.Closed && i != scope {
			r.markClosed(i)
		}
	}
}

// Finish closes the provider (if built and not yet closed) so that every history ends with it.
func (r *Run) Finish() {
	if r.sib != nil {
		r.checkSibling("at the end of the run (the later provider has been used in the meantime)")
		if len(r.Values) == 0 && len(r.Ops)%2 == 1 {
			r.closeSibling() // before the later provider is closed
		}
	}
	if r.Built && !r.Poisoned && !r.Scopes[0].Closed {
		r.Do(Op{Kind: OpCloseProvider})
	}
	r.closeSibling()
	for _, s := range r.Scopes {
		if s != nil && s.Cancel != nil {
			s.Cancel()
		}
	}
}

// ScriptLines renders the executed operations with their result classes.
func (r *Run) ScriptLines() []string {
	out := make([]string, 0, len(r.Ops))
	for i, o := range r.Ops {
		cls := ""
		if i < len(r.Results) {
			cls = " -> " + r.Results[i].Class
			if len(r.Results[i].Insts) > 0 {
				var ids []string
				for _, in := range r.Results[i].Insts {
					if in == nil {
						ids = append(ids, "nil")
					} else {
						ids = append(ids, fmt.Sprintf("%s#%d", in.T, in.ID))
					}
				}
				cls += " [" + strings.Join(ids, ",") + "]"
			}
			if r.Results[i].NewScope > 0 {
				cls += fmt.Sprintf(" s%d", r.Results[i].NewScope)
			}
		}
		out = append(out, fmt.Sprintf("op%d %s%s", i, o.String(), cls))
	}
	return out
}

var errorType = reflect.TypeOf((*error)(nil)).Elem()

var scopeT = reflect.TypeOf((*godi.Scope)(nil)).Elem()

// errCancelNotClosed: the scope did not become disposed within the bounded wait after its
// caller-provided context was cancelled.
var errCancelNotClosed = errors.New("scope not disposed within the bounded wait after context cancellation")

// AsEither reports whether the chain contains a T or a *T.
func AsEither[T any](err error) bool {
	if err == nil {
		return false
	}
	var v T
	if reflect.TypeOf(&v).Elem().Implements(errorType) && errors.As(err, &v) {
		return true
	}
	var p *T
	if reflect.TypeOf(p).Implements(errorType) && errors.As(err, &p) {
		return true
	}
	return false
}

// Classify maps an error to its documented class using only errors.Is / errors.As.
func Classify(err error) string {
	if err == nil {
		return "ok"
	}
	switch {
	case AsEither[godi.DisposalError](err):
		// first: what a failing Close method returned may itself wrap one of godi's sentinels
		return "disposal"
	case errors.Is(err, godi.ErrScopeDisposed):
		return "scope-disposed"
	case errors.Is(err, godi.ErrProviderDisposed):
		return "provider-disposed"
	case rt.IsInjected(err, -1, -1):
		return "ctor-error"
	case AsEither[godi.ConstructorPanicError](err):
		return "ctor-panic"
	case errors.Is(err, godi.ErrServiceNotFound):
		return "not-found"
	case AsEither[godi.CircularDependencyError](err):
		return "circular"
	case AsEither[godi.LifetimeConflictError](err):
		return "lifetime"
	case AsEither[godi.AlreadyRegisteredError](err):
		return "already-registered"
	case AsEither[godi.DisposalError](err):
		return "disposal"
	case err == errCancelNotClosed:
		return "cancel-not-closed"
	}
	// innermost type name
	inner := err
	for {
		u := errors.Unwrap(inner)
		if u == nil {
			break
		}
		inner = u
	}
	return "other:" + strings.TrimPrefix(fmt.Sprintf("%T", inner), "*")
}
