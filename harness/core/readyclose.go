package core

import (
	"errors"
	"fmt"
	"sync"

	"github.com/junioryono/godi/v4"
	"github.com/junioryono/godi/v4/verifh/eng"
)

// Ready values (non-function registrations) with a Close method that fails.
//
// Whether the container treats a value the user supplied as its own is its decision; two things
// follow from C12 whatever it decides. (1) A Close call returns a disposal error exactly when a
// Close method it invoked failed. (2) The decision does not depend on HOW the value is reachable:
// if the value registered plainly is closed with its owner, then so is the same value registered
// under several As aliases - also when the first alias was removed again before Build, and when a
// scope only ever resolved a later alias. A value that silently drops out of the disposal list in
// one of these situations takes its Close error with it.

type rcA interface{ A() }
type rcB interface{ B() }
type rcC interface{ C() }

type rcStore struct {
	mu     sync.Mutex
	closes int
	fails  int
}

func (s *rcStore) A() {}
func (s *rcStore) B() {}
func (s *rcStore) C() {}

var errRcStore = errors.New("ready-value fixture: this store fails to close")

func (s *rcStore) Close() error {
	s.mu.Lock()
	defer s.mu.Unlock()
	s.closes++
	s.fails++
	return errRcStore
}

// RunReadyValueCloseErrors runs the catalogue for C12.
func RunReadyValueCloseErrors(c *eng.Ctx, next func() (int, bool)) {
	type shape struct {
		name    string
		aliases int    // 0: plain; n: As[rcA], As[rcB] (, As[rcC])
		remove  string // alias removed before Build: "", "first", "second"
		resolve string // which identity the scopes resolve: "self", "first", "second", "last", "all"
		name2   bool   // registered under a Name as well
	}
	shapes := []shape{
		{name: "plain", resolve: "self"},
		{name: "plain:named", resolve: "self", name2: true},
		{name: "two-aliases:all-resolved", aliases: 2, resolve: "all"},
		{name: "two-aliases:only-the-first-resolved", aliases: 2, resolve: "first"},
		{name: "two-aliases:only-the-second-resolved", aliases: 2, resolve: "second"},
		{name: "two-aliases:first-removed-before-build", aliases: 2, remove: "first", resolve: "second"},
		{name: "two-aliases:second-removed-before-build", aliases: 2, remove: "second", resolve: "first"},
		{name: "three-aliases:only-the-last-resolved", aliases: 3, resolve: "last"},
		{name: "three-aliases:first-removed-before-build", aliases: 3, remove: "first", resolve: "last"},
		{name: "two-aliases:named:first-removed-before-build", aliases: 2, remove: "first", resolve: "second", name2: true},
	}
	for _, life := range allLifetimes {
		baseline := -1 // closes of the plainly registered value: 0 = the container leaves values alone
		for _, sh := range shapes {
			idx, mine := next()
			_ = mine // every worker runs the whole (tiny) catalogue of a lifetime: the baseline is needed
			feat := sh.name + ":" + lifeName(life)
			judge := mine
			if judge {
				c.R.Begin(idx)
			}
			viol := func(clause, detail string) {
				if !judge {
					return
				}
				c.R.Violation(eng.Violation{Prop: "C12", Clause: clause, Sig: "C12/" + clause + ":ready-value:" + feat, Case: idx, CaseID: "ready-value-close-" + feat,
					Detail: feat + ": " + detail, Replay: map[string]any{"fixture": "ready-value-close-errors", "shape": sh.name, "lifetime": lifeName(life)}})
			}
			closes := -1
			func() {
				defer func() {
					if p := recover(); p != nil {
						viol("panic", fmt.Sprintf("panic: %v", p))
					}
				}()
				st := &rcStore{}
				coll := godi.NewCollection()
				var opts []godi.AddOption
				if sh.aliases >= 2 {
					opts = append(opts, godi.As[rcA](), godi.As[rcB]())
				}
				if sh.aliases >= 3 {
					opts = append(opts, godi.As[rcC]())
				}
				if sh.name2 {
					opts = append(opts, godi.Name("main"))
				}
				if err := eqAdd(coll, life, st, opts...); err != nil {
					if judge {
						c.R.Inconclusive(idx, "fixture registration refused: "+err.Error())
					}
					return
				}
				rm := func(t any) {
					switch t.(type) {
					case *rcA:
						if sh.name2 {
							_ = godi.RemoveKeyed[rcA]("main")(coll)
						} else {
							_ = godi.Remove[rcA]()(coll)
						}
					case *rcB:
						if sh.name2 {
							_ = godi.RemoveKeyed[rcB]("main")(coll)
						} else {
							_ = godi.Remove[rcB]()(coll)
						}
					}
				}
				switch sh.remove {
				case "first":
					rm((*rcA)(nil))
				case "second":
					rm((*rcB)(nil))
				}
				prov, err := coll.Build()
				if err != nil {
					if judge {
						c.R.Inconclusive(idx, "fixture does not build: "+err.Error())
					}
					return
				}
				get := func(p godi.Provider, which string) error {
					var err error
					key := ""
					if sh.name2 {
						key = "main"
					}
					one := func(f func() error) {
						if e := f(); e != nil && err == nil {
							err = e
						}
					}
					if which == "self" || (which == "all" && sh.aliases == 0) {
						one(func() error {
							if key != "" {
								_, e := godi.ResolveKeyed[*rcStore](p, key)
								return e
							}
							_, e := godi.Resolve[*rcStore](p)
							return e
						})
					}
					if which == "first" || which == "all" {
						one(func() error {
							if key != "" {
								_, e := godi.ResolveKeyed[rcA](p, key)
								return e
							}
							_, e := godi.Resolve[rcA](p)
							return e
						})
					}
					if which == "second" || which == "all" || (which == "last" && sh.aliases == 2) {
						one(func() error {
							if key != "" {
								_, e := godi.ResolveKeyed[rcB](p, key)
								return e
							}
							_, e := godi.Resolve[rcB](p)
							return e
						})
					}
					if which == "last" && sh.aliases == 3 {
						one(func() error {
							if key != "" {
								_, e := godi.ResolveKeyed[rcC](p, key)
								return e
							}
							_, e := godi.Resolve[rcC](p)
							return e
						})
					}
					return err
				}
				sc, err := prov.CreateScope(nil)
				if err != nil {
					viol("scope-creation-failed", err.Error())
					return
				}
				if err := get(sc, sh.resolve); err != nil {
					viol("resolution-failed", fmt.Sprintf("resolving the registered value failed: %v", trimErr(err)))
				}
				// every Close call: an error exactly when a Close method failed during it
				closeAndJudge := func(what string, f func() error) {
					st.mu.Lock()
					before := st.fails
					st.mu.Unlock()
					err := f()
					st.mu.Lock()
					failed := st.fails - before
					st.mu.Unlock()
					isDisp := err != nil && AsEither[godi.DisposalError](err)
					switch {
					case failed > 0 && err == nil:
						viol("disposal-error-lost", fmt.Sprintf("%s returned nil although the value's Close method ran %d time(s) during it and failed", what, failed))
					case failed == 0 && err != nil:
						viol("close-error-spurious", fmt.Sprintf("%s returned %v although no Close method ran", what, trimErr(err)))
					case err != nil && !isDisp:
						viol("close-error-not-a-disposal-error", fmt.Sprintf("%s returned %v", what, trimErr(err)))
					}
				}
				closeAndJudge("scope.Close", sc.Close)
				closeAndJudge("scope.Close (again)", sc.Close)
				closeAndJudge("provider.Close", prov.Close)
				closeAndJudge("provider.Close (again)", prov.Close)
				st.mu.Lock()
				closes = st.closes
				st.mu.Unlock()
			}()
			if sh.name == "plain" {
				baseline = closes
			}
			if closes >= 0 && baseline >= 0 && (closes > 0) != (baseline > 0) {
				viol("ownership-depends-on-the-alias", fmt.Sprintf("the value registered plainly is closed %d time(s) when its owners are closed; registered as %q it is closed %d time(s) - whether the container disposes a value must not depend on which of its identities exist or were resolved", baseline, sh.name, closes))
			}
			if judge {
				c.R.Count("ready_value_close_cases", 1)
				c.R.End(idx, eng.Hash("c12-ready-value-close", feat), closes >= 0)
			}
		}
	}
}
