package core

import (
	"fmt"

	"github.com/junioryono/godi/v4"
	"github.com/junioryono/godi/v4/verifh/eng"
	"github.com/junioryono/godi/v4/verifh/pool"
	"github.com/junioryono/godi/v4/verifh/rt"
)

// An optional dependency whose provider fails once.
//
// What the consumer gets in the very construction during which the provider of its optional
// field failed is not judged (the builder treats any failure of an optional field as "absent";
// DESIGN 7.2). What is judged is the next time: "a failed resolution is not cached ... a retry
// behaves like a first attempt" - the next construction of the consumer (another resolution, a
// fresh scope) asks the provider again and, the provider succeeding, receives its instance.
func RunOptionalRetry(c *eng.Ctx, next func() (int, bool)) { runOptionalRetry(c, "C15", next) }

// RunOptionalRetryC03: the same histories judged for C03 - whatever a consumer receives in its
// optional slot while the transient provider is failing, it is never an instance that an earlier
// construction already received.
func RunOptionalRetryC03(c *eng.Ctx, next func() (int, bool)) { runOptionalRetry(c, "C03", next) }

func runOptionalRetry(c *eng.Ctx, prop string, next func() (int, bool)) {
	type tc struct {
		prov, cons string
		pl, cl     godi.Lifetime
	}
	cases := []tc{
		{"Leaf_K0_a", "InU_1_1_Opt", godi.Transient, godi.Scoped},
		{"Leaf_K0_a", "InU_1_1_Opt", godi.Scoped, godi.Scoped},
		{"Leaf_K0_a", "InU_1_1_Opt", godi.Transient, godi.Transient},
		{"Leaf_K0_b", "InU_2_1_Opt", godi.Transient, godi.Transient},
		{"Leaf_K0_a", "CloIn_K3_a", godi.Transient, godi.Scoped},
	}
	for ci, t := range cases {
		for _, nth := range []int{1, 2} {
			for _, kind := range []rt.FaultKind{rt.FErr, rt.FPanic} {
				idx, mine := next()
				if !mine {
					continue
				}
				c.R.Begin(idx)
				spec := &Spec{Regs: []Reg{mkReg(t.prov, t.pl), mkReg(t.cons, t.cl)}}
				if t.cons == "CloIn_K3_a" {
					spec.Regs = append(spec.Regs, mkReg("Leaf_K1_c", godi.Singleton))
				}
				m := NewModel(spec)
				if m.Class != ClsOK {
					panic(fmt.Sprintf("harness fixture %d of RunOptionalRetry is not buildable: %s", ci, m.Class))
				}
				pm, cm := pool.ByName(t.prov), pool.ByName(t.cons)
				r := NewRun(spec, m, []rt.Fault{{Ctor: pm.ID, Nth: nth, Kind: kind}}, nil)
				r.Build()
				var fs []Finding
				if r.Built {
					consType := cm.Outs[0].Type
					// four scopes, the consumer resolved twice in each: the provider fails in exactly one of its invocations
					for s := 0; s < 4; s++ {
						sc := r.Do(Op{Kind: OpCreate, Scope: 0, CtxKind: 1}).NewScope
						r.Do(Op{Kind: OpGet, Scope: sc, Type: consType})
						r.Do(Op{Kind: OpGet, Scope: sc, Type: consType})
					}
					r.Finish()
					o := Digest(r)
					// invocations of the provider: the faulted one failed; every consumer construction
					// that started after the failed invocation had finished must hold an instance
					var failedExit int64
					failedOp := -1
					for _, run := range o.Runs {
						if run.Ctor == pm.ID && run.Failed != "" {
							failedExit = run.EnterSeq
							failedOp = run.Op
						}
					}
					consReg := m.RegOfCtor(cm.ID)
					checked := 0
					for _, run := range o.Runs {
						// (the consumer constructed by the operation inside which the provider failed is
						// the one that is not judged)
						if run.Reg != consReg || run.ExitSeq == 0 || failedExit == 0 || run.EnterSeq < failedExit || run.Op == failedOp {
							continue
						}
						for k, b := range m.Regs[consReg].Binds {
							if b.Kind != BindSingle || !b.Dep.Optional || k >= len(run.Args) {
								continue
							}
							checked++
							if run.Args[k].Kind != 'i' {
								fs = append(fs, Finding{"failed-resolution-remembered", lifeName(t.cl) + "<-" + lifeName(t.pl) + ":" + map[rt.FaultKind]string{rt.FErr: "err", rt.FPanic: "panic"}[kind], fmt.Sprintf("invocation %d of %s (op%d) received no instance in its optional slot %d although the provider %s is registered and its only failing invocation (#%d) was over: the failure of one resolution was remembered", run.Nth, m.Describe(consReg), run.Op, k, t.prov, nth)})
							}
						}
					}
					c.R.Count("optional_retry_slots_checked", int64(checked))
					if prop == "C03" {
						fs = nil
						if t.pl == godi.Transient {
							seen := map[int64]int{}
							for _, run := range o.Runs {
								if run.Reg != consReg || run.ExitSeq == 0 {
									continue
								}
								for k, b := range m.Regs[consReg].Binds {
									if b.Kind != BindSingle || !b.Dep.Optional || k >= len(run.Args) || run.Args[k].Kind != 'i' || m.Regs[b.Targets[0].Reg].Life != godi.Transient {
										continue
									}
									id := run.Args[k].IDs[0]
									if first, dup := seen[id]; dup {
										fs = append(fs, Finding{"handed-out-twice", "transient:optional-slot-while-the-provider-fails", fmt.Sprintf("invocation %d of %s received in its optional slot %d the transient instance %s that invocation %d had already received (the transient's constructor did not run for it)", run.Nth, m.Describe(consReg), k, o.InstName(id), first)})
									} else {
										seen[id] = run.Nth
									}
								}
							}
						}
					}
				}
				report(c, prop, idx, r, fs)
				c.R.Count("optional_retry_cases", 1)
				c.R.End(idx, eng.Hash("optional-retry", prop, ci, nth, int(kind)), true)
			}
		}
	}
}
