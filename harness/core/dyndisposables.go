package core

import (
	"fmt"
	"sync"

	"github.com/junioryono/godi/v4"
	"github.com/junioryono/godi/v4/verifh/eng"
)

// A registration whose declared service type is an interface and whose constructor picks the
// implementation at run time (a feature switch): one implementation has a Close method, the
// other has none. "Every instance created by the container that has a Close() error method is
// closed exactly once ... never leaked" speaks about INSTANCES: whether a registration's first
// instance was disposable says nothing about its next one - in the same scope, in another scope,
// or in a provider built later from the same collection.

type DdCache interface{ Hit() int }
type ddNoop struct{}

func (*ddNoop) Hit() int { return 0 }

type ddReal struct {
	w      *ddWorld
	id     int
	closes int
	owner  int // index of the scope that created it
}

func (r *ddReal) Hit() int { return r.id }
func (r *ddReal) Close() error {
	r.w.mu.Lock()
	defer r.w.mu.Unlock()
	r.closes++
	if !r.w.closing[r.owner] {
		r.w.early++
	}
	return nil
}

type ddWorld struct {
	mu      sync.Mutex
	n       int
	realAt  func(n int) bool
	reals   []*ddReal
	cur     int // index of the scope resolving right now
	closing map[int]bool
	early   int
}

// RunDynamicTypeDisposables runs the catalogue for C10.
func RunDynamicTypeDisposables(c *eng.Ctx, next func() (int, bool)) {
	patterns := []struct {
		name   string
		realAt func(n int) bool // is the n-th instance (1-based) the disposable one?
	}{
		{"plain-first-then-disposable", func(n int) bool { return n > 1 }},
		{"alternating-plain-first", func(n int) bool { return n%2 == 0 }},
		{"alternating-disposable-first", func(n int) bool { return n%2 == 1 }},
		{"disposable-only-in-the-second-provider", nil},
	}
	for _, pt := range patterns {
		for _, life := range []godi.Lifetime{godi.Scoped, godi.Transient, godi.Singleton} {
			idx, mine := next()
			if !mine {
				continue
			}
			c.R.Begin(idx)
			feat := pt.name + ":" + lifeName(life)
			viol := func(clause, detail string) {
				c.R.Violation(eng.Violation{Prop: "C10", Clause: clause, Sig: "C10/" + clause + ":implementation-chosen-at-run-time:" + feat, Case: idx, CaseID: "dynamic-type-disposables-" + feat,
					Detail: feat + ": " + detail, Replay: map[string]any{"fixture": "dynamic-type-disposables", "pattern": pt.name, "lifetime": lifeName(life)}})
			}
			func() {
				defer func() {
					if p := recover(); p != nil {
						viol("panic", fmt.Sprintf("panic: %v", p))
					}
				}()
				w := &ddWorld{realAt: pt.realAt, closing: map[int]bool{}}
				secondOnly := pt.realAt == nil
				if secondOnly {
					w.realAt = func(int) bool { return false }
				}
				coll := godi.NewCollection()
				if err := eqAdd(coll, life, func() DdCache {
					w.mu.Lock()
					defer w.mu.Unlock()
					w.n++
					if w.realAt(w.n) {
						r := &ddReal{w: w, id: w.n, owner: w.cur}
						w.reals = append(w.reals, r)
						return r
					}
					return &ddNoop{}
				}); err != nil {
					c.R.Inconclusive(idx, "fixture registration refused")
					return
				}
				useProvider := func(provNo int) bool {
					prov, err := coll.Build()
					if err != nil {
						c.R.Inconclusive(idx, "fixture does not build: "+err.Error())
						return false
					}
					base := provNo * 100
					for i := 1; i <= 4; i++ {
						w.mu.Lock()
						w.cur = base + i
						if life == godi.Singleton {
							w.cur = base // owned by the provider
						}
						w.mu.Unlock()
						sc, err := prov.CreateScope(nil)
						if err != nil {
							viol("scope-creation-failed", err.Error())
							return false
						}
						for k := 0; k < 3; k++ {
							if _, err := godi.Resolve[DdCache](sc); err != nil {
								viol("resolution-failed", trimErr(err))
							}
						}
						w.mu.Lock()
						w.closing[base+i] = true
						w.mu.Unlock()
						_ = sc.Close()
						w.mu.Lock()
						for _, r := range w.reals {
							if r.owner == base+i && r.closes != 1 {
								viol("close-count", fmt.Sprintf("disposable instance #%d created in scope %d of provider %d (the registration's earlier instances had no Close method) was closed %d times by the scope's Close (want 1)", r.id, i, provNo, r.closes))
							}
						}
						w.mu.Unlock()
					}
					w.mu.Lock()
					w.closing[base] = true
					w.mu.Unlock()
					_ = prov.Close()
					return true
				}
				w.mu.Lock()
				w.cur = 0
				w.mu.Unlock()
				if life == godi.Singleton {
					// the singleton is created by Build: set the owner before
					w.cur = 0
				}
				if !useProvider(0) {
					return
				}
				if secondOnly {
					w.mu.Lock()
					w.realAt = func(int) bool { return true } // the feature is switched on; the collection is built again
					w.mu.Unlock()
				}
				w.mu.Lock()
				w.cur = 100
				w.mu.Unlock()
				if !useProvider(1) {
					return
				}
				w.mu.Lock()
				defer w.mu.Unlock()
				never, twice := 0, 0
				for _, r := range w.reals {
					if r.closes == 0 {
						never++
					}
					if r.closes > 1 {
						twice++
					}
				}
				if never > 0 {
					viol("never-closed", fmt.Sprintf("%d of %d disposable instances were never closed although every scope and both providers were closed", never, len(w.reals)))
				}
				if twice > 0 {
					viol("closed-twice", fmt.Sprintf("%d of %d disposable instances were closed more than once", twice, len(w.reals)))
				}
				if w.early > 0 {
					viol("closed-early", fmt.Sprintf("%d Close calls before the owner was closed", w.early))
				}
				c.R.Count("dynamic_type_disposables_created", int64(len(w.reals)))
			}()
			c.R.End(idx, eng.Hash("c10-dynamic-type", feat), true)
		}
	}
}
