package core

import (
	"fmt"
	"reflect"
	"sort"
	"strings"
	"time"

	"github.com/junioryono/godi/v4"
	"github.com/junioryono/godi/v4/verifh/eng"
	"github.com/junioryono/godi/v4/verifh/rt"
)

// Sibling providers.
//
// A collection is often built more than once: rebuilt after an edit (swap a service for a mock,
// switch a feature off), one provider per tenant, a reload while requests of the old provider are
// still in flight. Specs with RebuildAfter + KeepSibling keep the provider of the intermediate
// Build ALIVE next to the one under observation: it is used before the edits, again right after
// the observed Build and again at the end of the run, and closed last (or just before the
// observed provider). Two things are judged: (1) by the usual monitors, the observed provider
// against the model of the FINAL registrations - whatever the container remembers per process,
// per collection, per constructor or per descriptor was learnt from another registry; (2) here,
// the earlier provider against ITSELF: "a provider that has been built is unaffected by later
// changes to the collection" - every identity it could resolve is still produced by the same
// constructor with the same sharing behaviour, a new scope runs the same number of constructors,
// and every resolution returns.

type sibIdent struct {
	t     reflect.Type
	key   any
	group string
}

type sibling struct {
	prov   godi.Provider
	idents []sibIdent
	table  map[string]string
	dead   bool
}

func (r *Run) keepSibling(p godi.Provider) {
	s := &sibling{prov: p}
	seen := map[string]bool{}
	for _, d := range r.Coll.ToSlice() {
		if d == nil || d.Type == nil {
			continue
		}
		id := sibIdent{t: d.Type}
		if d.Group != "" {
			id.group = d.Group
		} else {
			id.key = d.Key
		}
		k := fmt.Sprintf("%v|%v|%s", id.t, id.key, id.group)
		if !seen[k] {
			seen[k] = true
			s.idents = append(s.idents, id)
		}
	}
	r.sib = s
	s.table = r.observeSibling("before the collection was edited")
}

func sibProducer(v any) string {
	in := rt.InstOf(v)
	if in == nil {
		return fmt.Sprintf("foreign(%T)", v)
	}
	if in.Ctor < 0 {
		return "value"
	}
	return fmt.Sprintf("c%d.%d", in.Ctor, in.Out)
}

// observeSibling resolves every identity the earlier provider was built with from a fresh scope
// (twice, and once more from a second scope, to see the sharing behaviour). Not logged.
func (r *Run) observeSibling(when string) map[string]string {
	s := r.sib
	if s == nil || s.dead {
		return nil
	}
	table := map[string]string{}
	done := make(chan struct{})
	prev := r.Rec.NoLog
	r.Rec.NoLog = true
	go func() {
		defer close(done)
		defer func() {
			if p := recover(); p != nil {
				table["<panic>"] = fmt.Sprintf("%v", p)
			}
		}()
		c0, _ := r.Rec.Counts()
		sc, err := s.prov.CreateScope(nil)
		if err != nil {
			table["<CreateScope>"] = Classify(err)
			return
		}
		c1, _ := r.Rec.Counts()
		table["<constructors run by CreateScope>"] = fmt.Sprint(c1 - c0)
		sc2, err2 := s.prov.CreateScope(nil)
		get := func(sc godi.Scope, id sibIdent) ([]any, error) {
			switch {
			case id.group != "":
				return sc.GetGroup(id.t, id.group)
			case id.key != nil:
				v, err := sc.GetKeyed(id.t, id.key)
				return []any{v}, err
			default:
				v, err := sc.Get(id.t)
				return []any{v}, err
			}
		}
		for _, id := range s.idents {
			name := fmt.Sprintf("%v key=%v group=%q", id.t, id.key, id.group)
			vs, err := get(sc, id)
			if err != nil {
				table[name] = Classify(err)
				continue
			}
			var ps []string
			for _, v := range vs {
				ps = append(ps, sibProducer(v))
			}
			cell := "ok:[" + strings.Join(ps, ",") + "]"
			same := func(a, b []any) string {
				if len(a) != len(b) {
					return "different-length"
				}
				for i := range a {
					if rt.InstOf(a[i]) != rt.InstOf(b[i]) {
						return "other-instance"
					}
				}
				return "same-instance"
			}
			if vs2, err := get(sc, id); err == nil {
				cell += " again:" + same(vs, vs2)
			} else {
				cell += " again:" + Classify(err)
			}
			if err2 == nil {
				if vs3, err := get(sc2, id); err == nil {
					cell += " other-scope:" + same(vs, vs3)
				} else {
					cell += " other-scope:" + Classify(err)
				}
			}
			table[name] = cell
		}
		_ = sc.Close()
		if err2 == nil {
			_ = sc2.Close()
		}
	}()
	v := eng.AwaitOrDiagnose(done, 15*time.Second)
	r.Rec.NoLog = prev
	if !v.Done {
		s.dead = true
		if v.Deadlock {
			r.sibFs = append(r.sibFs, Finding{"earlier-provider-hangs", "", fmt.Sprintf("a provider built from the collection before it was edited, used %s: a resolution never returns; goroutines stuck inside godi:\n%s", when, v.Dump)})
		}
		return nil
	}
	return table
}

// checkSibling observes the earlier provider again and compares with what it answered before the
// collection was edited.
func (r *Run) checkSibling(when string) {
	s := r.sib
	if s == nil || s.dead || s.table == nil {
		return
	}
	now := r.observeSibling(when)
	if now == nil {
		return
	}
	var ds []string
	for k, was := range s.table {
		if got := now[k]; got != was {
			ds = append(ds, fmt.Sprintf("%s: %s  ->  %s", k, was, got))
		}
	}
	for k, got := range now {
		if _, ok := s.table[k]; !ok {
			ds = append(ds, fmt.Sprintf("%s: <none>  ->  %s", k, got))
		}
	}
	if len(ds) > 0 {
		sort.Strings(ds)
		if len(ds) > 6 {
			ds = append(ds[:6], fmt.Sprintf("... %d more", len(ds)-6))
		}
		r.sibFs = append(r.sibFs, Finding{"earlier-provider-changed", "", fmt.Sprintf("a provider built from the collection before it was edited answers differently %s (it must be unaffected by later changes to the collection):\n  %s", when, strings.Join(ds, "\n  "))})
		s.table = now // one report per change
	}
}

func (r *Run) closeSibling() {
	if r.sib == nil || r.sib.prov == nil {
		return
	}
	p := r.sib.prov
	r.sib.prov = nil
	if r.sib.dead {
		return
	}
	prev := r.Rec.NoLog
	r.Rec.NoLog = true
	func() {
		defer func() { _ = recover() }()
		_ = p.Close()
	}()
	r.Rec.NoLog = prev
}

// SiblingFindings: what the earlier provider of a KeepSibling spec showed.
func (r *Run) SiblingFindings() []Finding {
	r.mu.Lock()
	defer r.mu.Unlock()
	return append([]Finding(nil), r.sibFs...)
}
