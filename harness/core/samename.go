package core

import (
	"fmt"

	"github.com/junioryono/godi/v4"
	"github.com/junioryono/godi/v4/verifh/eng"
)

// Two DIFFERENT parameter-object types with the same name: `type params struct{ godi.In ... }`
// declared locally in two registration functions (reflect prints both as "core.params"; the
// same happens with v1/users.Params and v2/users.Params). They are distinct types with distinct
// tags: "every ... parameter-object field receives the instance registered under precisely that
// type and key", group fields their group, optional and ignored fields stay what THEIR struct
// says - whichever of the two constructors was invoked first.

type snConn struct{ role string }
type snReports struct {
	db  *snConn
	all []*snConn
}
type snOrders struct {
	db  *snConn
	all []*snConn
	opt *snConn
}

func snReportsCtor() any {
	type params struct {
		godi.In
		DB  *snConn   `name:"replica"`
		All []*snConn `group:"readers"`
	}
	return func(p params) *snReports { return &snReports{p.DB, p.All} }
}

func snOrdersCtor() any {
	type params struct {
		godi.In
		DB  *snConn   `name:"primary"`
		All []*snConn `group:"writers"`
		Opt *snConn   `name:"standby" optional:"true"`
	}
	return func(p params) *snOrders { return &snOrders{p.DB, p.All, p.Opt} }
}

// RunSameNamedParamObjects runs the catalogue for C04.
func RunSameNamedParamObjects(c *eng.Ctx, next func() (int, bool)) {
	for _, life := range allLifetimes {
		for _, first := range []string{"reports-first", "orders-first"} {
			idx, mine := next()
			if !mine {
				continue
			}
			c.R.Begin(idx)
			feat := first + ":" + lifeName(life)
			viol := func(clause, detail string) {
				c.R.Violation(eng.Violation{Prop: "C04", Clause: clause, Sig: "C04/" + clause + ":two-parameter-object-types-with-one-name:" + feat, Case: idx, CaseID: "same-named-param-objects-" + feat,
					Detail: feat + ": " + detail, Replay: map[string]any{"fixture": "same-named-param-objects", "first": first, "lifetime": lifeName(life)}})
			}
			func() {
				defer func() {
					if p := recover(); p != nil {
						viol("api-call-panics", fmt.Sprintf("panic: %v", p))
					}
				}()
				coll := godi.NewCollection()
				conn := func(role string) func() *snConn { return func() *snConn { return &snConn{role} } }
				errs := []error{
					eqAdd(coll, life, conn("primary"), godi.Name("primary")),
					eqAdd(coll, life, conn("replica"), godi.Name("replica")),
					eqAdd(coll, life, conn("reader-1"), godi.Group("readers")),
					eqAdd(coll, life, conn("reader-2"), godi.Group("readers")),
					eqAdd(coll, life, conn("writer-1"), godi.Group("writers")),
					eqAdd(coll, life, snReportsCtor()),
					eqAdd(coll, life, snOrdersCtor()),
				}
				for _, e := range errs {
					if e != nil {
						c.R.Inconclusive(idx, "fixture registration refused: "+e.Error())
						return
					}
				}
				prov, err := coll.Build()
				if err != nil {
					viol("buildable-forms-rejected", fmt.Sprintf("Build: %v", trimErr(err)))
					return
				}
				defer prov.Close()
				check := func(where string, p godi.Provider) {
					var rp *snReports
					var od *snOrders
					var e1, e2 error
					if first == "reports-first" {
						rp, e1 = godi.Resolve[*snReports](p)
						od, e2 = godi.Resolve[*snOrders](p)
					} else {
						od, e2 = godi.Resolve[*snOrders](p)
						rp, e1 = godi.Resolve[*snReports](p)
					}
					if e1 != nil || e2 != nil {
						viol("registered-identity-fails", fmt.Sprintf("%s: %v / %v", where, trimErr(e1), trimErr(e2)))
						return
					}
					roles := func(cs []*snConn) string {
						s := ""
						for _, c := range cs {
							s += c.role + " "
						}
						return s
					}
					if rp.db == nil || rp.db.role != "replica" {
						viol("arg-wrong", fmt.Sprintf("%s: the reports service's field tagged name:\"replica\" received %+v", where, rp.db))
					}
					if od.db == nil || od.db.role != "primary" {
						viol("arg-wrong", fmt.Sprintf("%s: the orders service's field tagged name:\"primary\" received %+v", where, od.db))
					}
					if roles(rp.all) != "reader-1 reader-2 " {
						viol("group-wrong", fmt.Sprintf("%s: the reports service's field tagged group:\"readers\" received [%s]", where, roles(rp.all)))
					}
					if roles(od.all) != "writer-1 " {
						viol("group-wrong", fmt.Sprintf("%s: the orders service's field tagged group:\"writers\" received [%s]", where, roles(od.all)))
					}
					if od.opt != nil {
						viol("arg-wrong", fmt.Sprintf("%s: the orders service's optional field (nothing registered under its name) received %+v", where, od.opt))
					}
					c.R.Count("same_named_param_object_resolutions", 2)
				}
				sc, err := prov.CreateScope(nil)
				if err != nil {
					viol("scope-creation-failed", err.Error())
					return
				}
				check("scope", sc)
				check("provider", prov)
				_ = sc.Close()
			}()
			c.R.End(idx, eng.Hash("c04-same-name", feat), true)
		}
	}
}
