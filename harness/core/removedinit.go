package core

import (
	"fmt"
	"reflect"
	"time"

	"github.com/junioryono/godi/v4"
	"github.com/junioryono/godi/v4/verifh/eng"
)

// Functions without a service result (scope initializers, start-up hooks) registered under a
// name and REMOVED again before Build - together with the service they needed, or alone. What is
// left is an ordinary, resolvable set: Build accepts it and everything left resolves. (That the
// removed function never runs is C17's clause; here the question is acceptance.)

type riDep struct{}
type riOther struct{ n int }
type riUser struct{ o *riOther }

// RunRemovedInitializers is part of C08.
func RunRemovedInitializers(c *eng.Ctx, next func() (int, bool)) {
	void := reflect.TypeOf(struct{}{})
	for _, life := range []godi.Lifetime{godi.Scoped, godi.Singleton, godi.Transient} {
		for _, what := range []string{"the-initializer-and-the-service-it-needs", "the-initializer-alone", "the-initializer-then-registered-again-without-the-dependency"} {
			for _, mid := range []bool{false, true} {
				idx, mine := next()
				if !mine {
					continue
				}
				c.R.Begin(idx)
				feat := fmt.Sprintf("%s:%s", what, lifeName(life))
				if mid {
					feat += ":built-once-before-the-removal"
				}
				viol := func(clause, detail string) {
					c.R.Violation(eng.Violation{Prop: "C08", Clause: clause, Sig: "C08/" + clause + ":named-function-without-result-removed-before-Build:" + feat, Case: idx, CaseID: "removed-initializer-" + feat,
						Detail: feat + ": " + detail, Replay: map[string]any{"fixture": "removed-initializer", "what": what, "lifetime": lifeName(life), "built_before": mid}})
				}
				ran := 0
				fill := func(coll godi.Collection, history bool) error {
					var errs []error
					add := func(e error) { errs = append(errs, e) }
					add(coll.AddScoped(func() *riOther { return &riOther{7} }))
					add(coll.AddScoped(func(o *riOther) *riUser { return &riUser{o} }))
					if history {
						add(coll.AddSingleton(func() *riDep { return &riDep{} }))
						add(eqAdd(coll, life, func(*riDep) { ran++ }, godi.Name("audit-init")))
						if mid {
							if p, err := coll.Build(); err == nil {
								if sc, e := p.CreateScope(nil); e == nil {
									_, _ = godi.Resolve[*riUser](sc)
									_ = sc.Close()
								}
								_ = p.Close()
							}
						}
						coll.RemoveKeyed(void, "audit-init")
						switch what {
						case "the-initializer-and-the-service-it-needs":
							coll.Remove(reflect.TypeOf((*riDep)(nil)))
						case "the-initializer-then-registered-again-without-the-dependency":
							coll.Remove(reflect.TypeOf((*riDep)(nil)))
							add(eqAdd(coll, life, func(*riOther) {}, godi.Name("audit-init")))
						}
					} else {
						switch what {
						case "the-initializer-alone":
							add(coll.AddSingleton(func() *riDep { return &riDep{} }))
						case "the-initializer-then-registered-again-without-the-dependency":
							add(eqAdd(coll, life, func(*riOther) {}, godi.Name("audit-init")))
						}
					}
					for _, e := range errs {
						if e != nil {
							return e
						}
					}
					return nil
				}
				try := func(history bool) (built bool, berr error, resolved bool, rerr error) {
					coll := godi.NewCollection()
					if err := fill(coll, history); err != nil {
						return false, fmt.Errorf("registration refused: %w", err), false, nil
					}
					p, err := coll.Build()
					if err != nil {
						return false, err, false, nil
					}
					defer func() { _ = p.Close() }()
					sc, err := p.CreateScope(nil)
					if err != nil {
						return true, nil, false, err
					}
					defer func() { _ = sc.Close() }()
					u, err := godi.Resolve[*riUser](sc)
					return true, nil, err == nil && u != nil && u.o != nil && u.o.n == 7, err
				}
				done := make(chan struct{})
				var hb, tb, hr, tr bool
				var hberr, tberr, hrerr, trerr error
				var pan any
				go func() {
					defer close(done)
					defer func() { pan = recover() }()
					tb, tberr, tr, trerr = try(false)
					hb, hberr, hr, hrerr = try(true)
				}()
				if v := eng.AwaitOrDiagnose(done, 20*time.Second); !v.Done {
					c.R.Inconclusive(idx, "removed-initializer case did not finish within the watchdog")
					c.R.Abandon(idx)
					continue
				}
				switch {
				case pan != nil:
					c.R.Count("removed_initializer_cases_panicked", 1) // C15's business
				case !tb || !tr:
					// the reference set itself is not accepted / resolvable: nothing to compare with
					c.R.Count("removed_initializer_reference_not_accepted", 1)
					_ = tberr
					_ = trerr
				case !hb:
					viol("valid-set-rejected", fmt.Sprintf("Build refuses the collection (%v) although what is left after the removals has no missing dependency - a fresh collection holding exactly the remaining registrations builds and resolves", trimErr(hberr)))
				case !hr:
					viol("not-found-after-build", fmt.Sprintf("Build accepted the collection but a scope cannot be created / the remaining services do not resolve (%v), while they do from a fresh collection holding the same registrations", trimErr(hrerr)))
				}
				c.R.Count("removed_initializer_cases", 1)
				c.R.End(idx, eng.Hash("c08-removed-initializer", feat), true)
			}
		}
	}
}
