package core

import (
	"errors"
	"fmt"

	"github.com/junioryono/godi/v4"
	"github.com/junioryono/godi/v4/verifh/eng"
	"github.com/junioryono/godi/v4/verifh/pool"
	"github.com/junioryono/godi/v4/verifh/rt"
)

// A Build that fails in a constructor while the clean-up of what it had built fails too.
//
// The singleton that was built first has a Close method that returns an error; a later singleton's
// constructor returns an error / panics. Build fails. Whatever else its error says about the
// clean-up, "a constructor that panics or returns an error is reported as an error exposing the
// panic value or wrapping the constructor's own error ... through every Build".
func RunBuildCleanupFails(c *eng.Ctx, next func() (int, bool)) {
	specs := []*Spec{
		{Regs: []Reg{mkReg("Leaf_K0_a", godi.Singleton), mkReg("PosB_1_1", godi.Singleton)}},
		{Regs: []Reg{mkReg("Leaf_K0_a", godi.Singleton), mkReg("PosB_1_1", godi.Singleton), mkReg("PosB_2_3", godi.Singleton)}},
		{Regs: []Reg{mkReg("Leaf_S0_a", godi.Transient), mkReg("Leaf_K0_a", godi.Singleton), mkReg("PosB_1_1", godi.Singleton)}},
	}
	for si, spec := range specs {
		for _, kind := range []rt.FaultKind{rt.FErr, rt.FPanic} {
			idx, mine := next()
			if !mine {
				continue
			}
			c.R.Begin(idx)
			m := NewModel(spec)
			if m.Class != ClsOK {
				panic(fmt.Sprintf("harness fixture %d of RunBuildCleanupFails is not buildable: %s", si, m.Class))
			}
			failing := pool.ByName("PosB_1_1")
			first := pool.ByName("Leaf_K0_a")
			r := NewRun(spec, m, []rt.Fault{{Ctor: failing.ID, Nth: 1, Kind: kind, PanicIdx: 0}}, []rt.CloseFault{{Ctor: first.ID, Nth: 1, Out: 0}})
			r.Build()
			var fs []Finding
			kindName := map[rt.FaultKind]string{rt.FErr: "err", rt.FPanic: "panic"}[kind]
			switch {
			case r.BuildPanic != nil:
				fs = append(fs, Finding{"api-call-panics", "build:cleanup-fails-too", fmt.Sprintf("Build panicked: %v", r.BuildPanic)})
			case r.Built:
				fs = append(fs, Finding{"ctor-" + kindName + "-swallowed", "build:cleanup-fails-too", "Build succeeded although a singleton constructor failed"})
				r.Finish()
			case kind == rt.FErr && !rt.IsInjected(r.BuildErr, failing.ID, 1):
				fs = append(fs, Finding{"ctor-error-not-wrapped", "build:cleanup-fails-too", fmt.Sprintf("a singleton constructor returned an error and the clean-up of the singleton built before it failed as well: the constructor's own error is not reachable from Build's error with errors.As: %v", trimErr(r.BuildErr))})
			case kind == rt.FPanic:
				var pe *godi.ConstructorPanicError
				var pv godi.ConstructorPanicError
				if !errors.As(r.BuildErr, &pe) && !errors.As(r.BuildErr, &pv) {
					fs = append(fs, Finding{"ctor-panic-not-classifiable", "build:cleanup-fails-too", fmt.Sprintf("a singleton constructor panicked and the clean-up of the singleton built before it failed as well: errors.As(ConstructorPanicError) fails on Build's error: %v", trimErr(r.BuildErr))})
				}
			}
			report(c, "C15", idx, r, fs)
			c.R.Count("build_cleanup_fails_cases", 1)
			c.R.End(idx, eng.Hash("c15-cleanup-fails", si, int(kind)), true)
		}
	}
}
