package core

import (
	"errors"
	"fmt"
	"time"

	"github.com/junioryono/godi/v4"
	"github.com/junioryono/godi/v4/verifh/eng"
)

// BuildWithOptions: a build time limit and a failing constructor together.
//
// A singleton constructor gives up (returns its own error, or panics) only after the time limit
// of the build has passed - a connection attempt with a time-out of its own. Build fails; "a
// constructor that panics or returns an error is reported as an error exposing the panic value
// or wrapping the constructor's own error ... through every Build" - the limit having elapsed in
// the meantime does not make the constructor's error disappear. (No verdict depends on timing:
// the constructor sleeps four times the limit before it fails, so the limit HAS elapsed when it
// fails; a Build that ran out of time before it even reached the constructor - an overloaded
// machine - is not judged at all; the control cases run the same constructors without a limit and
// with a generous one.)

type btA struct{}
type btB struct{}

var errBtBoom = errors.New("build-timeout fixture: the constructor's own error")

type btWorld struct {
	sleep time.Duration
	panic bool
	ran   bool // the failing constructor was invoked
}

var btCur *btWorld

func btNewA() *btA { return &btA{} }
func btNewB(*btA) (*btB, error) {
	btCur.ran = true
	time.Sleep(btCur.sleep)
	if btCur.panic {
		panic(errBtBoom)
	}
	return nil, errBtBoom
}

func RunBuildTimeLimit(c *eng.Ctx, next func() (int, bool)) {
	for _, limit := range []string{"limit-elapsed", "generous-limit", "options-without-limit", "nil-options"} {
		for _, kind := range []string{"err", "panic"} {
			idx, mine := next()
			if !mine {
				continue
			}
			c.R.Begin(idx)
			feat := limit + ":" + kind
			viol := func(clause, detail string) {
				c.R.Violation(eng.Violation{Prop: "C15", Clause: clause, Sig: "C15/" + clause + ":BuildWithOptions:" + feat, Case: idx, CaseID: "build-time-limit-" + feat,
					Detail: feat + ": " + detail, Replay: map[string]any{"fixture": "build-time-limit", "limit": limit, "kind": kind}})
			}
			func() {
				defer func() {
					if p := recover(); p != nil {
						viol("api-call-panics", fmt.Sprintf("BuildWithOptions panicked: %v", p))
					}
				}()
				btCur = &btWorld{panic: kind == "panic"}
				var opts *godi.ProviderOptions
				switch limit {
				case "limit-elapsed":
					opts = &godi.ProviderOptions{BuildTimeout: 60 * time.Millisecond}
					btCur.sleep = 240 * time.Millisecond
				case "generous-limit":
					opts = &godi.ProviderOptions{BuildTimeout: time.Hour}
				case "options-without-limit":
					opts = &godi.ProviderOptions{}
				}
				coll := godi.NewCollection()
				if err := coll.AddSingleton(btNewA); err != nil {
					panic(err)
				}
				if err := coll.AddSingleton(btNewB); err != nil {
					panic(err)
				}
				prov, err := coll.BuildWithOptions(opts)
				c.R.Count("build_time_limit_cases", 1)
				if !btCur.ran {
					// the limit elapsed before Build got to the constructor (an overloaded machine):
					// no constructor failed, nothing to judge
					c.R.Count("build_time_limit_elapsed_before_the_constructor", 1)
					if prov != nil {
						_ = prov.Close()
					}
					return
				}
				if err == nil {
					viol("ctor-"+kind+"-swallowed", "Build succeeded although a singleton constructor failed")
					_ = prov.Close()
					return
				}
				if kind == "err" && !errors.Is(err, errBtBoom) {
					viol("ctor-error-not-wrapped", fmt.Sprintf("the constructor's own error is not reachable with errors.Is from Build's error: %v", trimErr(err)))
				}
				if kind == "panic" {
					var pe *godi.ConstructorPanicError
					var pv godi.ConstructorPanicError
					if !errors.As(err, &pe) && !errors.As(err, &pv) {
						viol("ctor-panic-not-classifiable", fmt.Sprintf("errors.As(ConstructorPanicError) fails on Build's error: %v", trimErr(err)))
					}
				}
			}()
			c.R.End(idx, eng.Hash("c15-build-time-limit", feat), true)
		}
	}
}
