package core

import (
	"context"
	"errors"
	"fmt"
	"reflect"
	"runtime"
	"time"

	"github.com/junioryono/godi/v4"
	"github.com/junioryono/godi/v4/verifh/eng"
	"github.com/junioryono/godi/v4/verifh/pool"
	"github.com/junioryono/godi/v4/verifh/rt"
)

// ---------------------------------------------------------------- C18

func init() {
	eng.Register(&eng.Property{
		ID: "C18", Level: "exploration",
		Rule: "cases are seeded (registration set containing services of every lifetime that take Scope / Provider / context.Context positionally and as In fields, scope tree with explicit / nil / value-carrying / cancellable contexts, resolution history). " +
			"Oracle: identity (==) of every injected built-in with the scope the operation was issued on (root scope for singletons and provider-level calls), Get(builtin) agreement, keyed/grouped built-in requests are not short-circuited, context values and cancellation propagate, FromContext on the scope context and on WithValue/WithCancel/WithTimeout children returns the scope, and every way of registering one of the three types is rejected. " +
			"Non-trivial: >=1 constructor received a built-in in a non-root scope; distinct = spec + history hash.",
		Shards:     func(tier string) int { return 8 },
		Run:        runC18,
		NeedEvents: []string{"builtin_args_checked", "fromcontext_checks", "reserved_registration_attempts", "ctx_cancel_checks"},
	})
}

// constructors that try to register the reserved types (must all be rejected)
type fakeCtx struct{ context.Context }

func retScope() godi.Scope                     { return nil }
func retProvider() godi.Provider               { return nil }
func retCtx() context.Context                  { return context.Background() }
func retCtxErr() (context.Context, error)      { return context.Background(), nil }
func retK0AndCtx() (*pool.K0, context.Context) { return &pool.K0{}, context.Background() }
func retScopeAndK1() (godi.Scope, *pool.K1)    { return nil, &pool.K1{} }
func newFakeCtx() *fakeCtx                     { return &fakeCtx{context.Background()} }
func retOutCtx() outCtx                        { return outCtx{K: &pool.K2{}, C: context.Background()} }
func retOutProviderNamed() outProv             { return outProv{} }
func retOutScopeGroup() outScopeGroup          { return outScopeGroup{} }

type outCtx struct {
	godi.Out
	K *pool.K2
	C context.Context
}
type outProv struct {
	godi.Out
	P godi.Provider `name:"k"`
}
type outScopeGroup struct {
	godi.Out
	S godi.Scope `group:"g"`
}

type reservedAttempt struct {
	name string
	add  func(c godi.Collection) error
	via  string
}

func reservedAttempts() []reservedAttempt {
	return []reservedAttempt{
		{"ctor-returns-Scope", func(c godi.Collection) error { return c.AddSingleton(retScope) }, "direct"},
		{"ctor-returns-Provider", func(c godi.Collection) error { return c.AddScoped(retProvider) }, "direct"},
		{"ctor-returns-Context", func(c godi.Collection) error { return c.AddTransient(retCtx) }, "direct"},
		{"ctor-returns-Context-error", func(c godi.Collection) error { return c.AddScoped(retCtxErr) }, "direct"},
		{"keyed-Context", func(c godi.Collection) error { return c.AddSingleton(retCtx, godi.Name("k")) }, "keyed"},
		{"grouped-Scope", func(c godi.Collection) error { return c.AddScoped(retScope, godi.Group("g")) }, "grouped"},
		{"as-Context", func(c godi.Collection) error { return c.AddSingleton(newFakeCtx, godi.As[context.Context]()) }, "as"},
		{"multi-return-second-is-Context", func(c godi.Collection) error { return c.AddScoped(retK0AndCtx) }, "multi-return"},
		{"multi-return-first-is-Scope", func(c godi.Collection) error { return c.AddScoped(retScopeAndK1) }, "multi-return"},
		{"out-field-Context", func(c godi.Collection) error { return c.AddSingleton(retOutCtx) }, "out-field"},
		{"out-field-Provider-named", func(c godi.Collection) error { return c.AddScoped(retOutProviderNamed) }, "out-field-keyed"},
		{"out-field-Scope-grouped", func(c godi.Collection) error { return c.AddTransient(retOutScopeGroup) }, "out-field-grouped"},
	}
}

func runC18(c *eng.Ctx) {
	cr := &caseRunner{c: c, prop: "C18"}
	defer func() {
		RunWarmup(c, cr.next)
		RunBuildDoorsRootContext(c, cr.next)
		RunTwoBuilds(c, "C18", cr.next)
		RunForeignScopeContext(c, cr.next)
		if C18Concurrent != nil {
			C18Concurrent(c, cr.next)
		}
		if C18Web != nil {
			C18Web(c, cr.next)
		}
	}()
	// (a) reserved types cannot be registered
	for _, ra := range reservedAttempts() {
		idx, mine := cr.next()
		if !mine {
			continue
		}
		c.R.Begin(idx)
		coll := godi.NewCollection()
		var err error
		var pan any
		func() {
			defer func() { pan = recover() }()
			err = ra.add(coll)
		}()
		c.R.Count("reserved_registration_attempts", 1)
		if pan != nil {
			c.R.Violation(eng.Violation{Prop: "C18", Clause: "reserved-registration-panics", Sig: "C18/reserved-registration-panics:" + ra.via, Case: idx, CaseID: ra.name, Detail: fmt.Sprintf("%s: registration panicked: %v", ra.name, pan)})
		} else if err == nil {
			c.R.Violation(eng.Violation{Prop: "C18", Clause: "reserved-type-accepted", Sig: "C18/reserved-type-accepted:" + ra.via, Case: idx, CaseID: ra.name, Detail: fmt.Sprintf("%s: the registration was accepted although it provides one of context.Context / godi.Scope / godi.Provider (Count=%d)", ra.name, coll.Count())})
		}
		if c.R.WantSample() {
			c.R.Sample(map[string]any{"kind": "reserved-registration", "attempt": ra.name, "rejected": err != nil})
		}
		c.R.End(idx, eng.Hash("c18-reserved", ra.name), true)
	}
	// (b) linkage
	biNames := []string{"BIpos_K0", "BIin_K1", "BIpos_K2", "BIin_K3", "BIpos_S0", "BIin_S4", "BIpos_S5", "BIin_S5", "BIdep_S6", "BIkeyedOpt_S7", "VoidScope", "BIopt_S6", "BIopt_K3", "BIanon_S6", "BIanon_K3"}
	n := c.Pick(300, 8000)
	for k := 0; k < n; k++ {
		idx, mine := cr.next()
		if !mine {
			continue
		}
		rng := cr.rng(idx)
		s := &Spec{}
		usedT := map[string]bool{}
		for _, i := range rng.Perm(len(biNames))[:3+rng.Intn(5)] {
			meta := pool.ByName(biNames[i])
			t := ""
			if len(meta.Outs) > 0 {
				t = meta.Outs[0].Type
			}
			if t != "" && usedT[t] {
				continue
			}
			usedT[t] = true
			life := allLifetimes[rng.Intn(3)]
			if meta.Void {
				life = godi.Scoped
			}
			if meta.Name == "BIdep_S6" {
				if usedT["K0"] {
					continue
				}
				usedT["K0"] = true
				s.Regs = append(s.Regs, mkReg("Leaf_K0_c", godi.Singleton))
			}
			s.Regs = append(s.Regs, Reg{Ctor: meta.ID, Life: life})
		}
		m := NewModel(s)
		if m.Class != ClsOK {
			continue
		}
		c.R.Begin(idx)
		r := NewRun(s, m, nil, nil)
		r.Rec.KeepVals = true
		r.Build()
		var fs []Finding
		deep := false
		if r.Built {
			GenScript(rng, r, 2+rng.Intn(5), 6+rng.Intn(10), 0)
			for sc := 1; sc < len(r.Scopes); sc++ {
				ProbeRegistered(r, sc)
			}
			ProbeRegistered(r, 0)
			var rootScope any
			rootScope, _ = r.Prov.Get(pool.T("Scope"))
			rootCtx, _ := r.Prov.Get(pool.T("Context"))
			o := Digest(r)
			// injected built-ins
			bfs, nChecked, sawDeep := CheckBuiltinArgs(r, o, rootScope, rootCtx)
			fs = append(fs, bfs...)
			c.R.Count("builtin_args_checked", int64(nChecked))
			if sawDeep {
				deep = true
			}
			// direct requests, keyed/grouped requests, FromContext, ctx linkage
			for sc := 1; sc < len(r.Scopes); sc++ {
				h := r.Scopes[sc]
				if v, err := h.S.Get(pool.T("Scope")); err != nil || v != any(h.S) {
					fs = append(fs, Finding{"get-scope-wrong", "", fmt.Sprintf("s%d.Get(Scope) returned %v, %v", sc, v, err)})
				}
				if v, err := h.S.Get(pool.T("Provider")); err != nil || v != any(r.Prov) {
					fs = append(fs, Finding{"get-provider-wrong", "", fmt.Sprintf("s%d.Get(Provider) returned %v, %v", sc, v, err)})
				}
				if h.S.Provider() != r.Prov {
					fs = append(fs, Finding{"scope-provider-accessor", "", fmt.Sprintf("s%d.Provider() is not the root provider", sc)})
				}
				if v, err := h.S.Get(pool.T("Context")); err != nil || v != any(h.S.Context()) {
					fs = append(fs, Finding{"get-context-wrong", "", fmt.Sprintf("s%d.Get(Context) returned %v, %v", sc, v, err)})
				}
				if _, err := h.S.GetKeyed(pool.T("Scope"), "k"); !errors.Is(err, godi.ErrServiceNotFound) {
					fs = append(fs, Finding{"keyed-builtin-short-circuited", "", fmt.Sprintf("s%d.GetKeyed(Scope,\"k\") = %v, want service-not-found", sc, err)})
				}
				if vs, err := h.S.GetGroup(pool.T("Context"), "g"); err != nil || len(vs) != 0 {
					fs = append(fs, Finding{"grouped-builtin-short-circuited", "", fmt.Sprintf("s%d.GetGroup(Context,\"g\") = %v, %v, want an empty group", sc, vs, err)})
				}
				ctx := h.S.Context()
				derived := []context.Context{ctx, context.WithValue(ctx, ctxKeyT{-1}, 1)}
				c2, cancel2 := context.WithCancel(ctx)
				c3, cancel3 := context.WithTimeout(ctx, time.Hour)
				derived = append(derived, c2, c3)
				for di, dctx := range derived {
					got, err := godi.FromContext(dctx)
					c.R.Count("fromcontext_checks", 1)
					if err != nil || got != h.S {
						fs = append(fs, Finding{"fromcontext-wrong", fmt.Sprintf("derived%d", di), fmt.Sprintf("FromContext on context %d derived from s%d's context returned %v, %v", di, sc, got, err)})
					}
				}
				cancel2()
				cancel3()
				// the derived contexts are done now, the scope and its own context are not: they
				// still lead to their scope (an operation that timed out cleans up through it)
				c4, cancel4 := context.WithTimeout(ctx, time.Nanosecond)
				<-c4.Done()
				cancel4()
				if ctx.Err() == nil {
					for di, dctx := range []context.Context{c2, c3, c4} {
						got, err := godi.FromContext(dctx)
						c.R.Count("fromcontext_checks", 1)
						if err != nil || got != h.S {
							fs = append(fs, Finding{"fromcontext-wrong", fmt.Sprintf("derived-and-done%d", di), fmt.Sprintf("FromContext on a cancelled / expired context derived from the live context of s%d returned %v, %v", sc, got, err)})
						}
					}
				}
				if h.CtxKey != nil {
					if v := ctx.Value(h.CtxKey); v == nil {
						fs = append(fs, Finding{"ctx-values-lost", "explicit-ctx", fmt.Sprintf("s%d's context does not carry the value of the context passed to CreateScope", sc)})
					}
				}
				// a child created with a nil context inherits the parent scope's context values
				if h.Parent > 0 && r.Scopes[h.Parent].CtxKey != nil && h.Cancel == nil && h.CtxKey == nil {
					// parent had values; child created with ctx kind 0 (nil) or 1 (Background)
				}
			}
			// nil-context children carry the parent's values and cancellation
			for sc := 1; sc < len(r.Scopes); sc++ {
				h := r.Scopes[sc]
				op := createOpOf(r, sc)
				if op == nil || op.CtxKind != 0 || h.Parent == 0 {
					continue
				}
				p := r.Scopes[h.Parent]
				if p.CtxKey != nil && h.S.Context().Value(p.CtxKey) == nil {
					fs = append(fs, Finding{"ctx-values-lost", "nil-ctx-child", fmt.Sprintf("s%d was created with a nil context under s%d but does not see the parent's context values", sc, h.Parent)})
				}
			}
			// cancellation propagates: cancel caller contexts, scope contexts must be done
			for sc := 1; sc < len(r.Scopes); sc++ {
				h := r.Scopes[sc]
				if h.Cancel == nil {
					continue
				}
				ctx := h.S.Context()
				h.Cancel()
				c.R.Count("ctx_cancel_checks", 1)
				select {
				case <-ctx.Done():
				default:
					// cancellation of a derived context is synchronous in the standard library
					fs = append(fs, Finding{"ctx-cancel-not-propagated", "", fmt.Sprintf("s%d's context is not cancelled after the caller's context was cancelled", sc)})
				}
				// nil-context descendants are cancelled with it
				for d := 1; d < len(r.Scopes); d++ {
					if op := createOpOf(r, d); op != nil && op.CtxKind == 0 && r.Scopes[d].Parent == sc {
						select {
						case <-r.Scopes[d].S.Context().Done():
						default:
							fs = append(fs, Finding{"ctx-cancel-not-propagated", "nil-ctx-child", fmt.Sprintf("s%d (nil context, child of s%d) is not cancelled with its parent", d, sc)})
						}
					}
				}
			}
			waitDisposed(r)
			r.Finish()
			countObs(c, r, o)
		}
		report(c, "C18", idx, r, fs)
		if c.R.WantSample() && deep {
			c.R.Sample(sampleOf(r, nil))
		}
		c.R.End(idx, eng.Hash("c18", s.Canon(), len(r.Ops)), deep)
	}
}

func createOpOf(r *Run, scope int) *Op {
	for i := range r.Results {
		if r.Results[i].NewScope == scope {
			return &r.Ops[i]
		}
	}
	return nil
}

// waitDisposed gives the context watchers a bounded chance to finish (steers nothing: the
// following provider.Close blocks on in-flight closes anyway).
func waitDisposed(r *Run) {
	for i := 0; i < 50; i++ {
		runtime.Gosched()
	}
}

// ---------------------------------------------------------------- C15

func init() {
	eng.Register(&eng.Property{
		ID: "C15", Level: "fault_enumeration",
		Rule: "(a) API fuzz: every exported entry point (Add*, AddModules, Remove*, Contains*, Build*, Get*/Resolve*/CreateScope/Close/FromContext on provider and scope, module options As/Name/Group) is called with nil / zero / typed-nil / unregistered / mismatched arguments and odd hashable keys under recover(); Must* only to confirm they panic. " +
			"(b) fault enumeration: for every seeded (registration set, history) each constructor invocation position is made to return a unique sentinel error, return nil, or panic with a value from {string, error, int, struct, pointer, nil-pointer dereference}; the failing API call must return an error (never panic) from which errors.As reaches the sentinel / a ConstructorPanicError whose Panic is the value; the failed operation is retried at once and must behave like a first attempt (correct wiring, scoped survivors reused), and at the end every survivor is disposed exactly once. " +
			"(c) class errors (not found, disposed, circular, lifetime conflict, already registered) are probed with errors.Is/As through Build, resolution, registration and nested module wrappers. Non-trivial: the call/fault reached godi; distinct = call or (spec, position, kind).",
		Shards:      func(tier string) int { return 16 },
		Run:         runC15,
		NeedEvents:  []string{"fuzz_calls", "fault_positions", "retries", "class_probes"},
		Assumptions: []string{"keys are hashable (statement); optional dependencies are never combined with a failing provider constructor (DESIGN.md §7.2)", "a constructor returning a nil instance must not panic the container; whether it is an error is not prescribed"},
	})
}

func runC15(c *eng.Ctx) {
	BuildDoors = true // Build / BuildWithContext / BuildWithOptions in turn (a function of the spec)
	cr := &caseRunner{c: c, prop: "C15"}
	defer func() {
		if C15Concurrent != nil {
			C15Concurrent(c, cr.next)
		}
	}()
	runC15Fuzz(c, cr)
	runC15Classes(c, cr)
	RunOptionalRetry(c, cr.next)
	RunBuildCleanupFails(c, cr.next)
	RunOddResultLists(c, cr.next)
	RunBuildTimeLimit(c, cr.next)
	RunPartialOutputs(c, "C15", cr.next)
	RunVariadicFailures(c, cr.next)
	nSpecs := c.Pick(300, 6000)
	// directed sets first (every tier): scope initializers that construct disposable services, and a
	// history that opens a top-level scope, a child and a grandchild - every constructor invocation
	// of every creation is made to fail in turn, so a creation that fails half-way (something was
	// built for the new scope already) is met on provider.CreateScope AND on scope.CreateScope
	directed := []*Spec{
		{Regs: []Reg{mkReg("Leaf_K0_a", godi.Scoped), mkReg("Leaf_S0_a", godi.Scoped), mkReg("VoidK0", godi.Scoped), mkReg("VoidS0", godi.Scoped)}},
		{Regs: []Reg{mkReg("Leaf_K0_a", godi.Transient), mkReg("Leaf_S0_a", godi.Scoped), mkReg("VoidK0", godi.Scoped), mkReg("VoidS0", godi.Scoped)}},
		{Regs: []Reg{mkReg("Leaf_K0_a", godi.Scoped), mkReg("PosA_1_1", godi.Scoped), mkReg("VoidK1", godi.Scoped), mkReg("Leaf_S0_a", godi.Singleton), mkReg("VoidS0", godi.Scoped)}},
	}
	for k := -len(directed); k < nSpecs; k++ {
		idx, mine := cr.next()
		if !mine {
			continue
		}
		rng := cr.rng(idx)
		kq := k
		if kq < 0 {
			kq = -kq
		}
		var s *Spec
		var m *Model
		if k < 0 {
			s = directed[k+len(directed)]
			m = NewModel(s)
			if m.Class != ClsOK {
				panic(fmt.Sprintf("harness fixture %d of C15 (directed fault enumeration) is not buildable: %s", k+len(directed), m.Class))
			}
			c.R.Count("directed_fault_enumeration_specs", 1)
		} else {
			s, m = GenSpec(rng, GenOpts{Want: ClsOK, Specials: k%2 == 0, Removes: k%4 == 0, MultiAlias: k%4 == 0})
		}
		if s == nil {
			continue
		}
		c.R.Begin(idx)
		base := NewRun(s, m, nil, nil)
		base.Build()
		if base.Built && k < 0 {
			s1 := base.Do(Op{Kind: OpCreate, Scope: 0, CtxKind: 1}).NewScope
			s2 := base.Do(Op{Kind: OpCreate, Scope: s1, CtxKind: 0}).NewScope
			s3 := base.Do(Op{Kind: OpCreate, Scope: s2, CtxKind: 1}).NewScope
			ProbeRegistered(base, s3)
			ProbeRegistered(base, s1)
			base.Finish()
		} else if base.Built {
			GenScript(rng, base, 1+rng.Intn(3), 4+rng.Intn(8), 8)
			base.Finish()
		}
		o := Digest(base)
		ops := append([]Op{}, base.Ops...)
		// registrations reachable through an optional edge are not faulted (§7.2)
		viaOptional := map[int]bool{}
		for i := range m.Regs {
			for _, b := range m.Regs[i].Binds {
				if b.Dep.Optional {
					for _, t := range b.Targets {
						viaOptional[t.Reg] = true
						for d := range m.Reach(t.Reg) {
							viaOptional[d] = true
						}
					}
				}
			}
		}
		positions := 0
		for ri, run := range o.Runs {
			if run.Reg < 0 || viaOptional[run.Reg] {
				continue
			}
			meta := &pool.Ctors[run.Ctor]
			kinds := []rt.FaultKind{rt.FPanic}
			if meta.HasErr {
				kinds = []rt.FaultKind{rt.FErr, rt.FPanic}
			}
			if len(meta.Outs) > 0 && (ri+kq)%4 == 0 {
				kinds = append(kinds, rt.FNil)
			}
			kind := kinds[(ri+kq)%len(kinds)]
			pidx := (ri + kq) % (len(rt.PanicVals) + 1)
			if pidx == len(rt.PanicVals) {
				pidx = -1 // nil-pointer dereference
			}
			fault := rt.Fault{Ctor: run.Ctor, Nth: run.Nth, Kind: kind, PanicIdx: pidx, ErrIdx: (ri + kq/2) % len(rt.ErrShapes)}
			fs := runFaulted(c, idx, s, m, ops, fault, run.Op)
			positions++
			c.R.Count("fault_positions", 1)
			if kind == rt.FErr {
				c.R.Count("fault_error_shape_"+rt.ErrShapes[fault.ErrIdx], 1)
			}
			c.R.Count(fmt.Sprintf("fault_kind_%d", kind), 1)
			_ = fs
		}
		// a Build stopped by its context (cancelled from inside the first, a middle and the last
		// constructor invocation of the Build): no panic, and a failed Build leaves no partial
		// state - whatever it constructed has been disposed when it returns, because no provider
		// is handed out that could ever dispose it
		var buildRuns []int
		for ri, run := range o.Runs {
			if run.Op == 0 {
				buildRuns = append(buildRuns, ri)
			}
		}
		if nb := len(buildRuns); nb > 0 {
			for _, pos := range dedupInts([]int{1, (nb + 1) / 2, nb}) {
				cr2 := NewRun(s, m, nil, nil)
				cr2.BuildCancelledAt(pos)
				c.R.Count("build_cancellation_positions", 1)
				var cfs []Finding
				feat := "cancelled-inside-the-last-constructor-of-the-Build"
				if pos < nb {
					feat = "cancelled-inside-an-earlier-constructor-of-the-Build"
				}
				switch {
				case cr2.BuildPanic != nil:
					cfs = append(cfs, Finding{"api-call-panics", "build-cancelled", fmt.Sprintf("BuildWithContext cancelled inside constructor invocation %d of %d panicked: %v", pos, nb, cr2.BuildPanic)})
				case cr2.Built:
					cr2.Finish() // the cancellation came too late to matter: a normal provider
				default:
					co := Digest(cr2)
					for _, x := range ownedDisposables(cr2, co) {
						if n := len(co.Closes[x.id]); n != 1 {
							cfs = append(cfs, Finding{"partial-state-after-failed-build", feat + fmt.Sprintf(":closed-%d-times", min(n, 2)), fmt.Sprintf("BuildWithContext cancelled inside constructor invocation %d of %d failed (%v) and returned no provider, but %s of %s, which it had constructed, was closed %d times", pos, nb, trimErr(cr2.BuildErr), co.InstName(x.id), m.Describe(x.reg), n)})
							break
						}
					}
				}
				report(c, "C15", idx, cr2, cfs)
			}
		}
		c.R.AddEnumerated(int64(positions), int64(positions))
		if c.R.WantSample() && positions > 3 {
			c.R.Sample(sampleOf(base, map[string]any{"kind": "fault-enumeration", "positions": positions}))
		}
		c.R.End(idx, eng.Hash("c15", s.Canon(), len(ops)), positions > 0)
	}
}

func dedupInts(xs []int) []int {
	var out []int
	for _, x := range xs {
		dup := false
		for _, y := range out {
			if x == y {
				dup = true
			}
		}
		if !dup && x > 0 {
			out = append(out, x)
		}
	}
	return out
}

// runFaulted replays ops under one fault; the failing op is checked and retried.
func runFaulted(c *eng.Ctx, idx int, s *Spec, m *Model, ops []Op, fault rt.Fault, failOp int) []Finding {
	var fs []Finding
	r := NewRun(s, m, []rt.Fault{fault}, nil)
	kindName := map[rt.FaultKind]string{rt.FErr: "err", rt.FNil: "nil", rt.FPanic: "panic"}[fault.Kind]
	meta := &pool.Ctors[fault.Ctor]
	reg := m.RegOfCtor(fault.Ctor)
	feat := kindName + ":" + m.Features(reg)
	excused := map[int]bool{}
	checkFail := func(opIdx int, res OpResult, phase string) {
		where := fmt.Sprintf("op%d %s with %s#%d made to %s", opIdx, r.Ops[opIdx].String(), meta.Name, fault.Nth, kindName)
		if res.Class == "PANIC" {
			fs = append(fs, Finding{"api-call-panics", feat + ":" + phase, fmt.Sprintf("%s: the call panicked: %v", where, res.Panic)})
			return
		}
		// the failure classes are distinguishable: a constructor that failed is not "not found",
		// "circular", "lifetime conflict" or "already registered" at the same time (nothing of
		// the kind is wrong with the registration set, the fault is the only failure)
		if res.Err != nil {
			for _, cl := range []struct {
				name string
				is   bool
			}{
				{"not-found", errors.Is(res.Err, godi.ErrServiceNotFound)},
				{"circular", AsEither[godi.CircularDependencyError](res.Err)},
				{"lifetime-conflict", AsEither[godi.LifetimeConflictError](res.Err)},
				{"already-registered", AsEither[godi.AlreadyRegisteredError](res.Err)},
			} {
				if cl.is {
					fs = append(fs, Finding{"failure-classes-not-distinguishable", kindName + ":also-" + cl.name + ":" + phase, fmt.Sprintf("%s: the error of a constructor that was made to %s also classifies as %q with errors.Is/As: %v", where, kindName, cl.name, trimErr(res.Err))})
					break
				}
			}
		}
		switch fault.Kind {
		case rt.FErr:
			if res.Err == nil {
				fs = append(fs, Finding{"ctor-error-swallowed", feat + ":" + phase + ":" + rt.ErrShapes[fault.ErrIdx%len(rt.ErrShapes)] + "-error", where + ": the call succeeded although the constructor returned an error (" + rt.ErrShapes[fault.ErrIdx%len(rt.ErrShapes)] + " error value)"})
			} else if !rt.IsInjected(res.Err, fault.Ctor, fault.Nth) {
				fs = append(fs, Finding{"ctor-error-not-wrapped", feat + ":" + phase, fmt.Sprintf("%s: the constructor's own error is not reachable with errors.As: %v", where, trimErr(res.Err))})
			}
		case rt.FPanic:
			if res.Err == nil {
				fs = append(fs, Finding{"ctor-panic-swallowed", feat + ":" + phase, where + ": the call succeeded although the constructor panicked"})
				return
			}
			var pe *godi.ConstructorPanicError
			var pv godi.ConstructorPanicError
			var got any
			switch {
			case errors.As(res.Err, &pe):
				got = pe.Panic
			case errors.As(res.Err, &pv):
				got = pv.Panic
			default:
				fs = append(fs, Finding{"ctor-panic-not-classifiable", feat + ":" + phase, fmt.Sprintf("%s: errors.As(ConstructorPanicError) fails: %v", where, trimErr(res.Err))})
				return
			}
			if fault.PanicIdx == -1 {
				if _, ok := got.(runtime.Error); !ok {
					fs = append(fs, Finding{"ctor-panic-value-lost", feat + ":" + phase, fmt.Sprintf("%s: Panic is %T %v, want the runtime error", where, got, got)})
				}
			} else {
				want := rt.PanicVals[fault.PanicIdx%len(rt.PanicVals)]
				if !reflect.DeepEqual(got, want) {
					fs = append(fs, Finding{"ctor-panic-value-lost", feat + ":" + phase, fmt.Sprintf("%s: Panic is %T %v, want %T %v", where, got, got, want, want)})
				}
			}
		}
	}
	for i, op := range ops {
		if op.Kind == OpBuild {
			r.Build()
			if i == failOp {
				checkFail(0, r.Results[0], "build")
				if !r.Built && r.BuildPanic == nil {
					// a second Build of the same collection behaves like a first attempt
					c.R.Count("retries", 1)
					var p2 godi.Provider
					var err2 error
					var pan any
					r.Rec.NoLog = true // the retry is judged by its verdict only; keep it out of the conservation log
					func() {
						defer func() { pan = recover() }()
						p2, err2 = r.Coll.Build()
					}()
					if pan != nil || err2 != nil {
						fs = append(fs, Finding{"retry-differs", feat + ":build", fmt.Sprintf("second Build after a failed one: %v %v", pan, trimErr(err2))})
					} else {
						_ = p2.Close()
					}
					r.Rec.NoLog = false
				}
			}
			continue
		}
		res := r.Do(op)
		if i == failOp && res.Class != "skipped" {
			phase := "resolution"
			if op.Kind == OpCreate {
				phase = "scope-creation"
			}
			excused[res.Op] = true
			checkFail(res.Op, res, phase)
			if res.Class != "PANIC" && res.Err != nil && fault.Kind != rt.FNil {
				c.R.Count("retries", 1)
				res2 := r.Do(op)
				if res2.Class != "ok" {
					fs = append(fs, Finding{"retry-differs", feat + ":" + phase, fmt.Sprintf("op%d %s failed because %s#%d was made to %s; the immediate retry returned %s %v, a first attempt would succeed", res.Op, op.String(), meta.Name, fault.Nth, kindName, res2.Class, trimErr(res2.Err))})
				}
				// scope numbering stays aligned: the failed CreateScope appended nothing, so the
				// retry receives the id the baseline assigned at this position
			}
		}
	}
	if r.Built && !r.Poisoned && !r.Scopes[0].Closed {
		r.Finish()
	}
	// no later container operation may panic either (e.g. a Close that disposes what the failed
	// or nil-returning constructor left behind)
	for i := range r.Results {
		res := &r.Results[i]
		if res.Class == "PANIC" && !excused[res.Op] && res.Op != 0 {
			fs = append(fs, Finding{"api-call-panics", feat + ":later-" + opKindName(r.Ops[res.Op]), fmt.Sprintf("after %s#%d was made to %s, op%d %s panicked: %v", meta.Name, fault.Nth, kindName, res.Op, r.Ops[res.Op].String(), res.Panic)})
			break
		}
	}
	o := Digest(r)
	// wiring of everything that did succeed, incl. the retry; the failed op itself is excused
	// (a constructor that returned nil is only required not to panic the container)
	var wiring []Finding
	if fault.Kind != rt.FNil {
		wiring = MonC04(r, o)
	}
	for _, f := range wiring {
		if f.Clause == "registered-identity-fails" || f.Clause == "group-resolution-fails" {
			skip := false
			for opIdx := range excused {
				if containsOp(f.Detail, opIdx) {
					skip = true
				}
			}
			if skip {
				continue
			}
		}
		f.Clause = "after-fault-" + f.Clause
		f.Sig = feat
		fs = append(fs, f)
	}
	// scoped survivors are reused by the retry: never two successful constructions per scope
	perScope := map[[2]int]int{}
	for _, run := range o.Runs {
		if run.Reg >= 0 && run.ExitSeq != 0 && m.Regs[run.Reg].Life == godi.Scoped && run.Scope >= 0 && !m.Regs[run.Reg].Void {
			perScope[[2]int{run.Reg, run.Scope}]++
		}
	}
	for k, n := range perScope {
		if n > 1 {
			fs = append(fs, Finding{"retry-reconstructs-survivor", feat, fmt.Sprintf("scoped %s was successfully constructed %d times in scope s%d across a failed attempt and its retry", m.Describe(k[0]), n, k[1])})
		}
	}
	for _, f := range MonC10(r, o, ":"+kindName) {
		f.Clause = "survivor-" + f.Clause
		fs = append(fs, f)
	}
	report(c, "C15", idx, r, fs)
	return fs
}

func containsOp(detail string, opIdx int) bool {
	p := fmt.Sprintf("op%d ", opIdx)
	return len(detail) >= len(p) && detail[:len(p)] == p
}

// CheckBuiltinArgs compares every injected Scope / Provider / context.Context (kept values) with
// the scope the triggering operation was issued on (root scope for singletons and
// provider-level calls).
func CheckBuiltinArgs(r *Run, o *Obs, rootScope, rootCtx any) (fs []Finding, checked int, deep bool) {
	m := r.Model
	for _, run := range o.Runs {
		if run.Reg < 0 {
			continue
		}
		ri := &m.Regs[run.Reg]
		var wantScope, wantCtx any
		if ri.Life == godi.Singleton || run.Scope == 0 {
			wantScope, wantCtx = rootScope, rootCtx
		} else if h := r.ScopeHandle(run.Scope); run.Scope > 0 && h != nil && h.S != nil {
			wantScope, wantCtx = h.S, h.S.Context()
			deep = true
		} else {
			continue
		}
		for kk, a := range run.Args {
			if kk >= len(ri.Binds) || ri.Binds[kk].Kind != BindBuiltin {
				continue
			}
			checked++
			feat := lifeName(ri.Life) + ":" + ri.Binds[kk].Dep.Form.String()
			if ri.Meta.InStyle {
				feat += ":in-field"
			}
			where := fmt.Sprintf("argument %d of %s (op%d %s)", kk, m.Describe(run.Reg), run.Op, opText(r, run.Op))
			switch ri.Binds[kk].Dep.Form {
			case pool.FScope:
				if a.Val != wantScope {
					fs = append(fs, Finding{"injected-scope-wrong", feat, where + ": the injected Scope is not the scope the resolution was issued on"})
				}
			case pool.FProvider:
				if a.Val != any(r.Prov) {
					fs = append(fs, Finding{"injected-provider-wrong", feat, where + ": the injected Provider is not the root provider"})
				}
			case pool.FContext:
				if a.Val != wantCtx {
					fs = append(fs, Finding{"injected-context-wrong", feat, where + ": the injected context is not the scope's context"})
				}
			}
		}
	}
	return
}

// C18Web is installed by package web: the request's context is what the scope middleware of every
// integration creates the request's scope with.
var C18Web func(c *eng.Ctx, next func() (int, bool))

// C13Web (package web): two providers behind nested scope middlewares, judged for C13.
var C13Web func(c *eng.Ctx, next func() (int, bool))

// C18Concurrent / C03Concurrent / C15Concurrent are installed by package conc: the same
// oracles over workloads in which one constructor runs concurrently in several scopes.
var (
	C18Concurrent func(c *eng.Ctx, next func() (int, bool))
	C03Concurrent func(c *eng.Ctx, next func() (int, bool))
	C15Concurrent func(c *eng.Ctx, next func() (int, bool))
)

// opKindName names the API entry point of an op (for signatures).
func opKindName(op Op) string {
	switch op.Kind {
	case OpBuild:
		return "Build"
	case OpCreate:
		return "CreateScope"
	case OpGetGroup:
		return "GetGroup"
	case OpClose:
		return "scope.Close"
	case OpCloseProvider:
		return "provider.Close"
	case OpCancel:
		return "cancel"
	}
	if op.Key != "" {
		return "GetKeyed"
	}
	return "Get"
}
