package core

import (
	"fmt"

	"github.com/junioryono/godi/v4"
	"github.com/junioryono/godi/v4/verifh/eng"
	"github.com/junioryono/godi/v4/verifh/pool"
	"github.com/junioryono/godi/v4/verifh/rt"
)

// A Close method that panics in the middle of a cascade.
//
// A child scope holds dep (created first) and faulty (created second, its Close panics); the
// parent scope and the provider hold instances of their own. The cascade - parent.Close or
// provider.Close - reaches faulty first (reverse creation order). What becomes of the panic is
// not C11's business; the order is: as long as dep - an instance of the descendant scope - is
// still open, no instance of the parent scope and no singleton is closed.
func RunClosePanicOrder(c *eng.Ctx, next func() (int, bool)) {
	spec := &Spec{Regs: []Reg{
		mkReg("Leaf_K0_a", godi.Singleton), // base (disposable singleton)
		mkReg("PosA_2_1", godi.Scoped),     // dep: K2(K0)
		mkReg("Leaf_S0_a", godi.Scoped),    // faulty
		mkReg("Leaf_S1_a", godi.Transient), // the parent's own instance
	}}
	m := NewModel(spec)
	if m.Class != ClsOK {
		panic("harness fixture of RunClosePanicOrder is not buildable: " + m.Class.String())
	}
	for _, closer := range []string{"parent.Close", "provider.Close", "grandparent.Close"} {
		idx, mine := next()
		if !mine {
			continue
		}
		c.R.Begin(idx)
		faulty := pool.ByName("Leaf_S0_a")
		r := NewRun(spec, m, nil, []rt.CloseFault{{Ctor: faulty.ID, Nth: 1, Out: 0, Panic: true}})
		r.Build()
		if !r.Built {
			panic("harness fixture of RunClosePanicOrder does not build")
		}
		gp := r.Do(Op{Kind: OpCreate, Scope: 0, CtxKind: 1}).NewScope
		parent := r.Do(Op{Kind: OpCreate, Scope: gp, CtxKind: 1}).NewScope
		r.Do(Op{Kind: OpGet, Scope: gp, Type: "S1"})
		r.Do(Op{Kind: OpGet, Scope: parent, Type: "S1"})
		child := r.Do(Op{Kind: OpCreate, Scope: parent, CtxKind: 1}).NewScope
		r.Do(Op{Kind: OpGet, Scope: child, Type: "K2"}) // dep first
		r.Do(Op{Kind: OpGet, Scope: child, Type: "S0"}) // then faulty
		var res OpResult
		switch closer {
		case "parent.Close":
			res = r.Do(Op{Kind: OpClose, Scope: parent})
		case "grandparent.Close":
			res = r.Do(Op{Kind: OpClose, Scope: gp})
		default:
			res = r.Do(Op{Kind: OpCloseProvider})
		}
		o := Digest(r)
		var fs []Finding
		var depOpen, faultyClosed bool
		var depName string
		for _, x := range ownedDisposables(r, o) {
			if x.owner == child && pool.Ctors[x.run.Ctor].Name == "PosA_2_1" {
				depOpen = len(o.Closes[x.id]) == 0
				depName = o.InstName(x.id)
			}
			if x.owner == child && x.run.Ctor == faulty.ID {
				faultyClosed = len(o.Closes[x.id]) > 0
			}
		}
		if depOpen {
			for _, x := range ownedDisposables(r, o) {
				if x.owner == child || len(o.Closes[x.id]) == 0 {
					continue
				}
				what := "an instance of an enclosing scope"
				clause := "parent-disposed-before-descendant"
				if x.owner == -1 {
					what, clause = "a singleton", "scope-instance-closed-after-singleton"
				}
				fs = append(fs, Finding{clause, "close-method-panics-inside-the-cascade:" + closer, fmt.Sprintf("%s (result %s): %s, %s of %s, was closed although %s of the descendant scope s%d - created before the instance whose Close panicked - was still open (never closed)", closer, res.Class, what, o.InstName(x.id), m.Describe(x.reg), depName, child)})
			}
		}
		report(c, "C11", idx, r, fs)
		c.R.Count("close_panic_order_cases", 1)
		if faultyClosed {
			c.R.Count("close_panics_reached", 1)
		}
		c.R.End(idx, eng.Hash("c11-close-panic-order", closer), faultyClosed)
	}
}
