package core

import (
	"context"
	"fmt"

	"github.com/junioryono/godi/v4"
	"github.com/junioryono/godi/v4/verifh/eng"
)

// A context that already carries a scope - of ANOTHER provider.
//
// scope.Context() carries the scope; code that gets that context passed along (a handler below a
// scope middleware, a job started from a request) may open a scope of its own with it, on a
// second provider: the application's and a plug-in's, or the old and the new provider around a
// reload of one collection. The scope B.CreateScope(ctxOfA) returns is a scope of B: requesting
// the Scope, the context or the Provider inside it - directly, as constructor parameters, as
// parameter-object fields, for every lifetime - yields that very scope, its own context (on
// which FromContext finds it, and which is cancelled with A's) and B; singletons are B's.

type fsProbe struct {
	Scope godi.Scope
	Ctx   context.Context
	Prov  godi.Provider
	Sing  *fsSingle
}
type fsProbeIn struct {
	godi.In
	Scope godi.Scope
	Ctx   context.Context
	Prov  godi.Provider
	Sing  *fsSingle
}
type fsTransient struct{ p fsProbe }
type fsSingle struct {
	Prov godi.Provider
	Root godi.Scope
}

// RunForeignScopeContext runs the catalogue for C18.
func RunForeignScopeContext(c *eng.Ctx, next func() (int, bool)) {
	for _, layout := range []string{"two-builds-of-one-collection", "two-collections"} {
		for _, via := range []string{"provider.CreateScope", "child-of-that-scope"} {
			idx, mine := next()
			if !mine {
				continue
			}
			c.R.Begin(idx)
			feat := layout + ":" + via
			viol := func(clause, detail string) {
				c.R.Violation(eng.Violation{Prop: "C18", Clause: clause, Sig: "C18/" + clause + ":context-carries-a-scope-of-another-provider:" + feat, Case: idx, CaseID: "foreign-scope-context-" + feat,
					Detail: feat + ": " + detail, Replay: map[string]any{"fixture": "foreign-scope-context", "layout": layout, "via": via}})
			}
			func() {
				defer func() {
					if p := recover(); p != nil {
						viol("panic", fmt.Sprintf("panic: %v", p))
					}
				}()
				mkColl := func() godi.Collection {
					coll := godi.NewCollection()
					_ = coll.AddSingleton(func(p godi.Provider, s godi.Scope) *fsSingle { return &fsSingle{p, s} })
					_ = coll.AddScoped(func(in fsProbeIn) *fsProbe { return &fsProbe{in.Scope, in.Ctx, in.Prov, in.Sing} })
					_ = coll.AddTransient(func(s godi.Scope, ctx context.Context, p godi.Provider, sg *fsSingle) *fsTransient {
						return &fsTransient{fsProbe{s, ctx, p, sg}}
					})
					return coll
				}
				collA := mkColl()
				collB := collA
				if layout == "two-collections" {
					collB = mkColl()
				}
				A, errA := collA.Build()
				B, errB := collB.Build()
				if errA != nil || errB != nil {
					c.R.Inconclusive(idx, "fixture does not build")
					return
				}
				defer A.Close()
				defer B.Close()
				type key struct{}
				base, cancel := context.WithCancel(context.WithValue(context.Background(), key{}, "request-1"))
				defer cancel()
				sA, err := A.CreateScope(base)
				if err != nil {
					c.R.Inconclusive(idx, "scope creation on the first provider failed")
					return
				}
				ctxA := sA.Context()
				sB, err := B.CreateScope(ctxA)
				if err != nil {
					viol("scope-creation-failed", fmt.Sprintf("B.CreateScope(context of a scope of A) failed: %v", trimErr(err)))
					return
				}
				sc := sB
				if via == "child-of-that-scope" {
					ch, err := sB.CreateScope(nil)
					if err != nil {
						viol("scope-creation-failed", fmt.Sprintf("child scope: %v", trimErr(err)))
						return
					}
					sc = ch
				}
				singB, err := godi.Resolve[*fsSingle](B)
				if err != nil {
					viol("resolution-failed", trimErr(err))
					return
				}
				if sc.Provider() != B {
					viol("scope-provider-accessor", "Provider() of a scope created through provider B (with a context that carries a scope of provider A) is not B")
				}
				if got, err := godi.FromContext(sc.Context()); err != nil || got != sc {
					viol("fromcontext-wrong", fmt.Sprintf("FromContext(scope.Context()) = %v, %v; want the scope itself", got, err))
				}
				if v, _ := sc.Context().Value(key{}).(string); v != "request-1" {
					viol("context-values-lost", "a value of the caller's context is not visible through the scope's context")
				}
				judge := func(what string, p fsProbe) {
					if p.Scope != sc {
						viol("injected-scope-wrong", what+": the injected Scope is not the scope the service was resolved from")
					}
					if p.Ctx != sc.Context() {
						viol("injected-context-wrong", what+": the injected context is not the scope's own context")
					}
					if p.Prov != B {
						viol("injected-provider-wrong", what+": the injected Provider is not the provider the scope was created through")
					}
					if p.Sing != singB {
						viol("singleton-of-another-provider", what+": the injected singleton is not the singleton of the provider the scope was created through")
					}
				}
				if p, err := godi.Resolve[*fsProbe](sc); err != nil {
					viol("resolution-failed", trimErr(err))
				} else {
					judge("scoped service (parameter object)", *p)
				}
				if t, err := godi.Resolve[*fsTransient](sc); err != nil {
					viol("resolution-failed", trimErr(err))
				} else {
					judge("transient service (parameters)", t.p)
				}
				if s, err := godi.Resolve[godi.Scope](sc); err != nil || s != sc {
					viol("injected-scope-wrong", fmt.Sprintf("Resolve[Scope] on the scope = %v, %v", s, err))
				}
				if p, err := godi.Resolve[godi.Provider](sc); err != nil || p != B {
					viol("injected-provider-wrong", fmt.Sprintf("Resolve[Provider] on the scope = %v, %v", p, err))
				}
				if singB.Prov != B {
					viol("injected-provider-wrong", "the Provider injected into B's singleton is not B")
				}
				// closing provider B closes the scope; provider A's scope is not touched by it
				_ = B.Close()
				if _, err := godi.Resolve[*fsProbe](sc); err == nil {
					viol("scope-survives-its-provider", "the scope created through provider B still resolves after B.Close()")
				}
				if _, err := godi.Resolve[*fsProbe](sA); err != nil {
					viol("foreign-scope-closed", fmt.Sprintf("closing provider B closed (or broke) the scope of provider A whose context was passed to B.CreateScope: %v", trimErr(err)))
				}
				c.R.Count("foreign_scope_context_cases", 1)
			}()
			c.R.End(idx, eng.Hash("c18-foreign-scope", feat), true)
		}
	}
}
