package core

import (
	"context"
	"fmt"
	"sync/atomic"
	"time"

	"github.com/junioryono/godi/v4"
	"github.com/junioryono/godi/v4/verifh/eng"
)

// The provider is closed WHILE Build is still creating the singletons: a singleton constructor is
// handed the Provider (a built-in injectable) and calls Close on it - a start-up check that gives
// up, a constructor that hands the Provider to a supervisor which shuts down at once. Whatever
// Build then returns (it fails: the container is closed), every disposable instance that a
// constructor has handed to the container was created by the container and is owned by it:
// closed exactly once, none leaked - the one created before the Close, and the one the closing
// constructor itself returns afterwards.

type scRes struct {
	name   string
	closes atomic.Int32
}

func (r *scRes) Close() error { r.closes.Add(1); return nil }

type scA struct{ *scRes }
type scB struct{ *scRes }
type scC struct{ *scRes }

// RunClosedDuringBuild is part of C10.
func RunClosedDuringBuild(c *eng.Ctx, next func() (int, bool)) {
	for _, shape := range []string{"the-closing-constructor-returns-a-disposable", "a-disposable-singleton-exists-already", "both:and-a-third-is-never-reached"} {
		for _, door := range []string{"Build", "BuildWithContext"} {
			idx, mine := next()
			if !mine {
				continue
			}
			c.R.Begin(idx)
			feat := shape + ":" + door
			viol := func(clause, detail string) {
				c.R.Violation(eng.Violation{Prop: "C10", Clause: clause, Sig: "C10/" + clause + ":provider-closed-by-a-singleton-constructor-during-Build:" + shape, Case: idx, CaseID: "closed-during-build-" + feat,
					Detail: feat + ": " + detail, Replay: map[string]any{"fixture": "closed-during-build", "shape": shape, "door": door}})
			}
			a, b, cc := &scA{&scRes{name: "A"}}, &scB{&scRes{name: "B"}}, &scC{&scRes{name: "C"}}
			var made []*scRes
			coll := godi.NewCollection()
			var errs []error
			switch shape {
			case "the-closing-constructor-returns-a-disposable":
				errs = append(errs,
					coll.AddSingleton(func(p godi.Provider) *scA { _ = p.Close(); made = append(made, a.scRes); return a }),
					coll.AddSingleton(func(*scA) *scB { made = append(made, b.scRes); return b }))
			case "a-disposable-singleton-exists-already":
				errs = append(errs,
					coll.AddSingleton(func() *scA { made = append(made, a.scRes); return a }),
					coll.AddSingleton(func(_ *scA, p godi.Provider) *struct{ X int } { _ = p.Close(); return &struct{ X int }{1} }))
			default:
				errs = append(errs,
					coll.AddSingleton(func() *scA { made = append(made, a.scRes); return a }),
					coll.AddSingleton(func(_ *scA, p godi.Provider) *scB { _ = p.Close(); made = append(made, b.scRes); return b }),
					coll.AddSingleton(func(*scB) *scC { made = append(made, cc.scRes); return cc }))
			}
			for _, e := range errs {
				if e != nil {
					panic("closed-during-build fixture: registration refused: " + e.Error())
				}
			}
			done := make(chan struct{})
			var prov godi.Provider
			var berr error
			var pan any
			go func() {
				defer close(done)
				defer func() { pan = recover() }()
				if door == "Build" {
					prov, berr = coll.Build()
				} else {
					prov, berr = coll.BuildWithContext(context.Background())
				}
				if berr == nil && prov != nil {
					_ = prov.Close()
				}
			}()
			if v := eng.AwaitOrDiagnose(done, 20*time.Second); !v.Done {
				if v.Deadlock {
					viol("hang", "Build never returned; goroutines stuck inside godi:\n"+v.Dump)
				} else {
					c.R.Inconclusive(idx, "closed-during-build case did not finish within the watchdog")
				}
				c.R.Abandon(idx)
				continue
			}
			if pan != nil {
				// how the failure is delivered is C15's business; the instances are still owned
				c.R.Count("closed_during_build_panics", 1)
			}
			for _, r := range made {
				switch n := r.closes.Load(); {
				case n == 0:
					viol("never-closed", fmt.Sprintf("the disposable singleton %s was created by the container (its constructor returned it during Build) and is never closed: Build returned (%v, %v), nothing is left to close it", r.name, prov != nil, trimErr(berr)))
				case n > 1:
					viol("closed-more-than-once", fmt.Sprintf("the disposable singleton %s was closed %d times", r.name, n))
				}
			}
			c.R.Count("closed_during_build_cases", 1)
			c.R.Count("closed_during_build_instances", int64(len(made)))
			c.R.End(idx, eng.Hash("c10-closed-during-build", feat), len(made) > 0)
		}
	}
}
