package core

import (
	"fmt"
	"github.com/junioryono/godi/v4/verifh/rt"
	"math/rand"
	"strings"
	"sync"
	"time"

	"github.com/junioryono/godi/v4"
	"github.com/junioryono/godi/v4/verifh/eng"
	"github.com/junioryono/godi/v4/verifh/pool"
)

// caseRunner keeps the running case index of a property's Run function.
type caseRunner struct {
	c    *eng.Ctx
	prop string
	idx  int
}

// next returns the next global case index and whether it belongs to this shard.
func (cr *caseRunner) next() (int, bool) {
	i := cr.idx
	cr.idx++
	return i, cr.c.Mine(i)
}

// guard runs fn (one case's execution against godi) with a generous wall-clock bound. When it
// does not return, the goroutine dump decides: goroutines waiting in a lock/channel with a godi
// frame on their stack, identically in two samples 2 s apart, are a non-termination finding
// (the process cannot go on and abandons the case); anything else is inconclusive.
func (cr *caseRunner) guard(idx int, what func() string, fn func()) {
	done := make(chan struct{})
	go func() { defer close(done); fn() }()
	v := eng.AwaitOrDiagnose(done, 20*time.Second)
	if v.Done {
		return
	}
	if v.Deadlock {
		cr.c.R.Violation(eng.Violation{Prop: cr.prop, Clause: "operation-never-returns", Sig: cr.prop + "/operation-never-returns:" + eng.InnermostGodiFn(v.Dump), Case: idx, CaseID: fmt.Sprintf("case-%d", idx),
			Detail: "a sequential operation on the container never returned; goroutines stuck inside godi (two samples, 2 s apart):\n" + v.Dump + "\n" + what()})
	} else {
		cr.c.R.Inconclusive(idx, "case did not finish within the watchdog and no goroutine is provably stuck inside godi")
	}
	cr.c.R.Abandon(idx)
}

func (cr *caseRunner) rng(idx int) *rand.Rand {
	return rand.New(rand.NewSource(cr.c.Seed*7_368_787 + int64(idx)*104_729 + int64(len(cr.prop))))
}

func countObs(c *eng.Ctx, r *Run, o *Obs) {
	c.R.Count("ctor_invocations", int64(len(o.Runs)))
	c.R.Count("close_events", int64(len(o.CloseOrder)))
	c.R.Count("deliveries", int64(len(o.Deliveries)))
	c.R.Count("api_calls", int64(len(r.Ops)))
	for i := range r.Results {
		c.R.Count("result_"+r.Results[i].Class, 1)
	}
	if r.Built {
		c.R.Count("builds_ok", 1)
	} else {
		c.R.Count("builds_failed", 1)
	}
}

func sampleOf(r *Run, extra map[string]any) map[string]any {
	s := map[string]any{"spec": r.Spec.Lines()}
	sl := r.ScriptLines()
	if len(sl) > 25 {
		sl = append(sl[:25], fmt.Sprintf("… (%d operations)", len(r.Ops)))
	}
	s["history"] = sl
	for k, v := range extra {
		s[k] = v
	}
	return s
}

// specOf builds a spec from constructor names (directed witnesses).
func mkReg(name string, life godi.Lifetime, opts ...func(*Reg)) Reg {
	r := Reg{Ctor: pool.ByName(name).ID, Life: life}
	for _, o := range opts {
		o(&r)
	}
	return r
}
func withName(n string) func(*Reg)  { return func(r *Reg) { r.Name = n } }
func withGroup(g string) func(*Reg) { return func(r *Reg) { r.Group = g } }
func withAs(as ...string) func(*Reg) {
	return func(r *Reg) { r.As = append(r.As, as...) }
}

// standardScript: scope tree + random resolutions + full probe of registered identities at
// depth, on the provider and on a sibling; ends with provider.Close.
func standardScript(rng *rand.Rand, r *Run, closeProb int) {
	r.Build()
	if !r.Built {
		return
	}
	if r.EditAfterBuild {
		r.EditCollectionAfterBuild()
	}
	GenScript(rng, r, 1+rng.Intn(4), 6+rng.Intn(14), closeProb)
	deep := r.Do(Op{Kind: OpCreate, Scope: 0, CtxKind: 1})
	d2 := r.Do(Op{Kind: OpCreate, Scope: deep.NewScope, CtxKind: 0})
	d3 := r.Do(Op{Kind: OpCreate, Scope: d2.NewScope, CtxKind: 2})
	ProbeRegistered(r, d3.NewScope)
	ProbeRegistered(r, 0)
	ProbeRegisteredReverse(r, deep.NewScope)
	r.Finish()
}

// ---------------------------------------------------------------- C01

func init() {
	eng.Register(&eng.Property{
		ID: "C01", Level: "exploration",
		Rule: "cases are (registration set, scope-tree/resolution history) pairs: directed witnesses, seeded random buildable sets mixing lifetimes, keys, groups, In/Out objects, aliases, multi-return and instance values, " +
			"plus a concurrent phase where 8-32 goroutines resolve the same identities from different scopes. Non-trivial: the provider built, has >=1 constructor-registered singleton and that singleton was observed through >=2 access paths (direct / injected / different scopes); distinct = canonical spec + history hash.",
		Shards:     func(tier string) int { return 16 },
		Run:        runC01,
		NeedEvents: []string{"ctor_invocations", "singleton_observations", "concurrent_resolutions"},
		Assumptions: []string{"constructor identity comes from the static pool (distinct top-level functions)",
			"interleavings inside godi are sampled by real parallelism, not enumerated"},
	})
}

func c01Witnesses() []*Spec {
	return []*Spec{
		// D6: one singleton registration with two aliases
		{Regs: []Reg{mkReg("Leaf_K0_a", godi.Singleton, withAs("IK0", "IA")), mkReg("PosA_1_0", godi.Singleton)}},
		// D6 variant: three aliases, consumed through one of them
		{Regs: []Reg{mkReg("Leaf_K1_a", godi.Singleton, withAs("IK1", "IA", "IB")), mkReg("InU_0_2_Iface", godi.Scoped)}},
		// multi-return and Out-struct singletons
		{Regs: []Reg{mkReg("MR_K0K1", godi.Singleton), mkReg("PosA_2_3", godi.Scoped)}},
		{Regs: []Reg{mkReg("OutN_K0K1", godi.Singleton), mkReg("InU_2_1_Keyed", godi.Transient)}},
		// D9: Out struct with a group field
		{Regs: []Reg{mkReg("OutG_K0K1", godi.Singleton)}},
		// several outputs / aliases of which the FIRST (or a later one) was removed again
		{Regs: []Reg{mkReg("MR_S1S2S5e", godi.Singleton), {Remove: true, RmType: "S1", Tail: true}}},
		{Regs: []Reg{mkReg("MR_S1S2S5e", godi.Singleton), {Remove: true, RmType: "S2", Tail: true}}},
		{Regs: []Reg{mkReg("Leaf_K1_a", godi.Singleton, withAs("IK1", "IA", "IB")), {Remove: true, RmType: "IA", Tail: true}, mkReg("InU_0_2_Iface", godi.Scoped)}},
		{Regs: []Reg{mkReg("Leaf_K1_a", godi.Singleton, withAs("IA", "IK1", "IB")), {Remove: true, RmType: "IA", Tail: true}, mkReg("InU_0_2_Iface", godi.Singleton), mkReg("InU_2_2_Iface", godi.Scoped)}},
		{Regs: []Reg{mkReg("Leaf_K1_a", godi.Singleton, withAs("IK1", "IA", "IB")), {Remove: true, RmType: "IK1", Tail: true}}},
		{Regs: []Reg{mkReg("OutP_K0K1", godi.Singleton), {Remove: true, RmType: "K0", Tail: true}, mkReg("Leaf_K0_b", godi.Transient), mkReg("PosA_2_3", godi.Scoped)}},
		{Regs: []Reg{mkReg("MR_K0K1", godi.Singleton), {Remove: true, RmType: "K0", Tail: true}, mkReg("Leaf_K0_c", godi.Singleton), mkReg("PosA_2_3", godi.Singleton)}},
		// ready values: several values of one concrete type, each under several aliases (told apart by key / group)
		{Regs: []Reg{{Ctor: -1, Value: "S7", Life: godi.Singleton, Name: "k", As: []string{"IS7", "IA"}}, {Ctor: -1, Value: "S7", Life: godi.Singleton, Name: "k2", As: []string{"IS7", "IA"}}, {Ctor: -1, Value: "S7", Life: godi.Singleton}}},
		{Regs: []Reg{{Ctor: -1, Value: "S6", Life: godi.Singleton, Group: "g", As: []string{"IS6", "IB"}}, {Ctor: -1, Value: "S6", Life: godi.Singleton, Group: "g", As: []string{"IS6", "IB"}}, {Ctor: -1, Value: "S6", Life: godi.Singleton, As: []string{"IS6", "IA"}}}},
		{Regs: []Reg{{Ctor: -1, Value: "K0", Life: godi.Singleton, Name: "k", As: []string{"IK0", "IA"}}, {Remove: true, RmType: "IK0", RmKey: "k", Tail: true}, {Ctor: -1, Value: "K0", Life: godi.Singleton, Name: "k", As: []string{"IK0", "IB"}}}},
		// initializer-style singletons (no service result) must not run again for later scopes
		{Regs: []Reg{mkReg("Void0", godi.Singleton), mkReg("ErrOnly0", godi.Singleton), mkReg("Leaf_K0_a", godi.Singleton), mkReg("VoidK0", godi.Singleton), mkReg("Void0b", godi.Scoped)}},
	}
}

// shrunkGroupSpecs: members of one group registered around Remove steps, so that the collection
// has the SAME number of entries when two members of the group are added (and every other
// combination nearby). A member's place in its group is its identity; whatever else an
// implementation derives it from - the size of the collection, a running count that Remove
// rewinds - makes two members coincide here: one constructor then serves both and the other
// never runs.
func shrunkGroupSpecs(life godi.Lifetime) []*Spec {
	fillers := []string{"Leaf_K0_a", "Leaf_K2_a", "Leaf_K3_a", "Leaf_S0_a"}
	ftypes := []string{"K0", "K2", "K3", "S0"}
	members := []string{"Leaf_K1_a", "Leaf_K1_b", "Leaf_K1_c"}
	var out []*Spec
	for a := 0; a <= 2; a++ {
		for b := 0; b <= 1; b++ {
			for r := 1; r <= a+b; r++ {
				for third := 0; third < 2; third++ {
					s := &Spec{}
					for i := 0; i < a; i++ {
						s.Regs = append(s.Regs, mkReg(fillers[i], life))
					}
					s.Regs = append(s.Regs, mkReg(members[0], life, withGroup("g")))
					if third == 1 {
						s.Regs = append(s.Regs, mkReg(members[2], life, withGroup("g")))
					}
					for i := a; i < a+b; i++ {
						s.Regs = append(s.Regs, mkReg(fillers[i], life))
					}
					for i := 0; i < r; i++ {
						s.Regs = append(s.Regs, Reg{Remove: true, RmType: ftypes[i], Tail: true})
					}
					s.Regs = append(s.Regs, tailReg(mkReg(members[1], life, withGroup("g"))))
					out = append(out, s)
				}
			}
		}
	}
	return out
}

func singletonObservations(r *Run, o *Obs) (perReg map[int]int) {
	perReg = map[int]int{}
	for _, d := range o.Deliveries {
		if p, ok := o.Produced[d.Inst]; ok && p.Reg >= 0 && r.Model.Regs[p.Reg].Life == godi.Singleton {
			perReg[p.Reg]++
		}
	}
	return
}

func runC01(c *eng.Ctx) {
	BuildDoors = true // Build / BuildWithContext / BuildWithOptions in turn (a function of the spec)
	cr := &caseRunner{c: c, prop: "C01"}
	defer func() {
		RunTwoBuilds(c, "C01", cr.next)
		RunBuildTimeWorker(c, cr.next)
		// singleton registrations whose constructors are distinct function values sharing code
		// (closures of one literal, method values, reflect.MakeFunc): each key must be served by
		// the output of ITS constructor
		for _, fk := range funcKindCases {
			idx, mine := cr.next()
			if !mine {
				continue
			}
			c.R.Begin(idx)
			fs, n := fk.run()
			for _, f := range fs {
				if !strings.Contains(f.Detail, "(singleton)") {
					continue
				}
				c.R.Violation(eng.Violation{Prop: "C01", Clause: "identity", Sig: "C01/identity:singleton:function-value-kind:" + fk.name, Case: idx, CaseID: "funckind-" + fk.name,
					Detail: "singleton registrations whose constructors share code: " + f.Detail})
			}
			c.R.Count("function_value_kind_resolutions", int64(n))
			c.R.End(idx, eng.Hash("c01-funckind", fk.name), n > 0)
		}
	}()
	finish := func(idx int, r *Run, kind string) {
		o := Digest(r)
		report(c, "C01", idx, r, MonC01(r, o))
		countObs(c, r, o)
		obs := singletonObservations(r, o)
		nt := false
		for _, n := range obs {
			c.R.Count("singleton_observations", int64(n))
			if n >= 2 {
				nt = true
			}
		}
		if c.R.WantSample() && nt {
			c.R.Sample(sampleOf(r, map[string]any{"kind": kind}))
		}
		c.R.End(idx, eng.Hash(kind, r.Spec.Canon(), len(r.Ops)), nt && r.Built)
	}
	for wi, s := range append(append(c01Witnesses(), shrunkGroupSpecs(godi.Singleton)...), SwapSpecs(false)...) {
		if m := NewModel(s); m.Class != ClsOK {
			panic(fmt.Sprintf("harness fixture %d of C01 (witnesses) is not buildable: %s", wi, m.Class))
		}
		idx, mine := cr.next()
		if !mine {
			continue
		}
		c.R.Begin(idx)
		r := NewRun(s, NewModel(s), nil, nil)
		standardScript(cr.rng(idx), r, 0)
		finish(idx, r, "witness")
	}
	// every special constructor form as a singleton (plus, less often, the other lifetimes)
	for fi, ss := range FormSpecs() {
		if l := ss.FormLifetime(); l != godi.Singleton && fi%4 != 0 {
			continue
		}
		idx, mine := cr.next()
		if !mine {
			continue
		}
		c.R.Begin(idx)
		c.R.Count("form_specs", 1)
		r := NewRun(ss.Spec, NewModel(ss.Spec), nil, nil)
		standardScript(cr.rng(idx), r, 0)
		finish(idx, r, "form:"+ss.Consumer)
	}
	// multi-output singleton constructors whose FIRST invocation leaves every output nil: whatever
	// Build makes of that (today it refuses: "constructor produced no instance"), a Build that
	// SUCCEEDS has run the constructor once
	for _, ss := range FormSpecs() {
		if ss.FormLifetime() != godi.Singleton {
			continue
		}
		meta := pool.ByName(ss.Consumer)
		if len(meta.Outs) < 2 {
			continue
		}
		idx, mine := cr.next()
		if !mine {
			continue
		}
		c.R.Begin(idx)
		c.R.Count("form_specs_nil_outputs", 1)
		r := NewRun(ss.Spec, NewModel(ss.Spec), []rt.Fault{{Ctor: meta.ID, Nth: 1, Kind: rt.FNil}}, nil)
		standardScript(cr.rng(idx), r, 0)
		o := Digest(r)
		var fs []Finding
		for _, f := range MonC01(r, o) {
			if f.Clause == "ctor-count" || f.Clause == "ctor-after-build" {
				f.Sig += ":first-invocation-returns-nil-outputs"
				fs = append(fs, f)
			}
		}
		report(c, "C01", idx, r, fs)
		c.R.End(idx, eng.Hash("c01-nil-outputs", ss.Spec.Canon()), true)
	}
	n := c.Pick(1500, 40000)
	for k := 0; k < n; k++ {
		idx, mine := cr.next()
		if !mine {
			continue
		}
		rng := cr.rng(idx)
		full := k%5 == 4 // every fifth spec uses the full profile (features behind open findings)
		s, m := GenSpec(rng, GenOpts{Want: ClsOK, Specials: true, Values: true, MultiAlias: full || k%3 == 1, OutGroup: full, MultiOpt: full, Removes: k%3 == 1, Rebuild: k%4 == 1, Sibling: true})
		if s == nil {
			continue
		}
		c.R.Begin(idx)
		r := NewRun(s, m, nil, nil)
		r.EditAfterBuild = k%3 == 0 // the collection is emptied and partly refilled right after Build
		standardScript(rng, r, 10)
		finish(idx, r, "random")
	}
	// concurrent phase
	nc := c.Pick(40, 600)
	for k := 0; k < nc; k++ {
		idx, mine := cr.next()
		if !mine {
			continue
		}
		rng := cr.rng(idx)
		s, m := GenSpec(rng, GenOpts{Want: ClsOK, Specials: true})
		if s == nil {
			continue
		}
		c.R.Begin(idx)
		r := NewRun(s, m, nil, nil)
		r.Build()
		if r.Built {
			g := c.Pick(8, 32)
			scopes := []int{0}
			for i := 0; i < 4; i++ {
				res := r.Do(Op{Kind: OpCreate, Scope: scopes[rng.Intn(len(scopes))], CtxKind: 1})
				if res.NewScope > 0 {
					scopes = append(scopes, res.NewScope)
				}
			}
			var idents []IdentKey
			for ik, p := range m.Services {
				if m.Regs[p.Reg].Life == godi.Singleton {
					idents = append(idents, ik)
				}
			}
			sortIdents(idents)
			start := make(chan struct{})
			var wg sync.WaitGroup
			for gi := 0; gi < g; gi++ {
				sc := scopes[gi%len(scopes)]
				wg.Add(1)
				go func(sc int) {
					defer wg.Done()
					<-start
					for rep := 0; rep < 3; rep++ {
						for _, ik := range idents {
							r.Do(Op{Kind: OpGet, Scope: sc, Type: ik.Type, Key: ik.Key})
							c.R.Count("concurrent_resolutions", 1)
						}
					}
				}(sc)
			}
			close(start)
			wg.Wait()
			r.Finish()
		}
		finish(idx, r, "concurrent")
	}
}

func sortIdents(iks []IdentKey) {
	for i := 1; i < len(iks); i++ {
		for j := i; j > 0 && (iks[j].Type+"\x00"+iks[j].Key) < (iks[j-1].Type+"\x00"+iks[j-1].Key); j-- {
			iks[j], iks[j-1] = iks[j-1], iks[j]
		}
	}
}

// ---------------------------------------------------------------- C03

func init() {
	eng.Register(&eng.Property{
		ID: "C03", Level: "exploration",
		Rule: "cases are seeded random buildable registration sets biased towards transients (consumed by singletons at Build, by scoped services, by other transients, twice by one constructor, keyed, in groups) with a scope-tree/resolution history; " +
			"every delivery (resolution result or constructor argument) of a constructor-registered transient is joined with the constructor invocation that produced it. Non-trivial: >=1 transient registration with >=2 deliveries; distinct = canonical spec + history hash.",
		Shards:      func(tier string) int { return 16 },
		Run:         runC03,
		NeedEvents:  []string{"transient_deliveries", "ctor_invocations"},
		Assumptions: []string{"only failure-free histories (no injected faults); instance values are excluded (the statement speaks of constructor-registered transients)"},
	})
}

func runC03(c *eng.Ctx) {
	BuildDoors = true // Build / BuildWithContext / BuildWithOptions in turn (a function of the spec)
	cr := &caseRunner{c: c, prop: "C03"}
	defer func() { RunOptionalRetryC03(c, cr.next) }()
	defer func() {
		// transient registrations whose constructors share their code, resolved so that one
		// resolution is still building its dependencies while the other runs completely: every
		// request must be served by a fresh run of ITS OWN constructor
		for _, kind := range []string{"closures", "method-values"} {
			idx, mine := cr.next()
			if !mine {
				continue
			}
			c.R.Begin(idx)
			fs, n := overlappingSharedCode(kind, godi.Transient)
			for _, f := range fs {
				c.R.Violation(eng.Violation{Prop: "C03", Clause: "ctor-count", Sig: "C03/ctor-count:transient:shared-code-under-overlap:" + kind, Case: idx, CaseID: "funckind-overlap-" + kind,
					Detail: "the request was not served by a run of its own constructor: " + f.Detail})
			}
			c.R.Count("shared_code_overlapping_resolutions", int64(n))
			c.R.End(idx, eng.Hash("c03-funckind-overlap", kind), n > 0)
		}
		if C03Concurrent != nil {
			C03Concurrent(c, cr.next)
		}
		RunTransientHooks(c, cr.next)
	}()
	finish := func(idx int, r *Run, kind string) {
		o := Digest(r)
		report(c, "C03", idx, r, MonC03(r, o))
		countObs(c, r, o)
		per := map[int]int{}
		for _, d := range o.Deliveries {
			if p, ok := o.Produced[d.Inst]; ok && p.Reg >= 0 && !p.Value && r.Model.Regs[p.Reg].Life == godi.Transient {
				per[p.Reg]++
				c.R.Count("transient_deliveries", 1)
				if d.Direct {
					c.R.Count("transient_deliveries_direct", 1)
				} else {
					c.R.Count("transient_deliveries_injected", 1)
				}
			}
		}
		nt := false
		for _, n := range per {
			if n >= 2 {
				nt = true
			}
		}
		if c.R.WantSample() && nt {
			c.R.Sample(sampleOf(r, map[string]any{"kind": kind}))
		}
		c.R.End(idx, eng.Hash(kind, r.Spec.Canon(), len(r.Ops)), nt && r.Built)
	}
	directed := []*Spec{
		{Regs: []Reg{mkReg("Leaf_K1_a", godi.Transient), mkReg("Twice_K0", godi.Transient), mkReg("Leaf_K1_b", godi.Transient, withGroup("g")), mkReg("Leaf_K1_c", godi.Transient, withGroup("g")), mkReg("TwiceIn_K2", godi.Scoped)}},
		{Regs: []Reg{mkReg("Leaf_K0_a", godi.Transient), mkReg("PosA_1_1", godi.Singleton), mkReg("PosA_2_3", godi.Transient), mkReg("PosB_3_7", godi.Transient)}},
		{Regs: []Reg{mkReg("MR_K0K1", godi.Transient), mkReg("PosA_2_3", godi.Transient)}},
		{Regs: []Reg{mkReg("Leaf_S0_a", godi.Transient), mkReg("Leaf_S5_a", godi.Transient), mkReg("Twice_S4", godi.Singleton)}},
		{Regs: []Reg{mkReg("Leaf_K0_a", godi.Transient, withAs("IK0")), mkReg("InU_1_1_Iface", godi.Transient), mkReg("InU_2_2_Plain", godi.Scoped)}},
	}
	directed = append(directed, SwapSpecs(false)...)
	for di, s := range directed {
		if m := NewModel(s); m.Class != ClsOK {
			panic(fmt.Sprintf("harness fixture %d of C03 (directed) is not buildable: %s", di, m.Class))
		}
		idx, mine := cr.next()
		if !mine {
			continue
		}
		c.R.Begin(idx)
		r := NewRun(s, NewModel(s), nil, nil)
		standardScript(cr.rng(idx), r, 0)
		finish(idx, r, "directed")
	}
	// every special constructor form as a transient (plus, less often, the other lifetimes)
	for fi, ss := range FormSpecs() {
		if l := ss.FormLifetime(); l != godi.Transient && fi%4 != 0 {
			continue
		}
		idx, mine := cr.next()
		if !mine {
			continue
		}
		c.R.Begin(idx)
		c.R.Count("form_specs", 1)
		r := NewRun(ss.Spec, NewModel(ss.Spec), nil, nil)
		standardScript(cr.rng(idx), r, 0)
		finish(idx, r, "form:"+ss.Consumer)
	}
	n := c.Pick(1500, 40000)
	for k := 0; k < n; k++ {
		idx, mine := cr.next()
		if !mine {
			continue
		}
		rng := cr.rng(idx)
		lifes := []godi.Lifetime{godi.Transient, godi.Transient, godi.Transient, godi.Singleton, godi.Scoped}
		s, m := GenSpec(rng, GenOpts{Want: ClsOK, Specials: k%3 == 0 || k%4 == 1, Lifetimes: lifes, Removes: k%4 == 1, MultiAlias: k%4 == 1, Rebuild: k%4 == 1 || k%8 == 2, Sibling: true})
		if s == nil {
			continue
		}
		c.R.Begin(idx)
		r := NewRun(s, m, nil, nil)
		r.EditAfterBuild = k%4 == 2
		standardScript(rng, r, 8)
		finish(idx, r, "random")
	}
	// a constructor that was handed transient instances fails once (error or panic) and is asked
	// again in the same scope: what it receives the second time is as fresh as the first time
	nf := c.Pick(250, 4000)
	for k := 0; k < nf; k++ {
		idx, mine := cr.next()
		if !mine {
			continue
		}
		rng := cr.rng(idx)
		lifes := []godi.Lifetime{godi.Transient, godi.Transient, godi.Scoped, godi.Singleton}
		s, m := GenSpec(rng, GenOpts{Want: ClsOK, Specials: k%3 == 0, Lifetimes: lifes})
		if s == nil {
			continue
		}
		c.R.Begin(idx)
		base := NewRun(s, m, nil, nil)
		standardScript(rng, base, 0)
		o := Digest(base)
		// invocations outside Build / scope creation whose constructor received a transient
		var cands []int
		for ri, run := range o.Runs {
			if run.Reg < 0 || run.Op <= 0 || run.Op >= len(base.Ops) || base.Ops[run.Op].Kind == OpCreate || base.Ops[run.Op].Kind == OpBuild {
				continue
			}
			for _, b := range m.Regs[run.Reg].Binds {
				for _, p := range b.Targets {
					if p.Reg >= 0 && m.Regs[p.Reg].Life == godi.Transient && m.Regs[p.Reg].Meta != nil {
						cands = append(cands, ri)
					}
				}
			}
		}
		if !base.Built || len(cands) == 0 {
			c.R.End(idx, eng.Hash("c03-retry-none", s.Canon()), false)
			continue
		}
		run := o.Runs[cands[rng.Intn(len(cands))]]
		kind := rt.FPanic
		if pool.Ctors[run.Ctor].HasErr && rng.Intn(2) == 0 {
			kind = rt.FErr
		}
		ops := append([]Op{}, base.Ops[:run.Op+1]...)
		ops = append(ops, base.Ops[run.Op], base.Ops[run.Op]) // the failed request is made again, twice
		ops = append(ops, base.Ops[run.Op+1:]...)
		fr := replayOps(s, m, ops, []rt.Fault{{Ctor: run.Ctor, Nth: run.Nth, Kind: kind, PanicIdx: k % len(rt.PanicVals)}}, nil)
		fo := Digest(fr)
		var fs []Finding
		for _, f := range MonC03(fr, fo) {
			// (a transient made for a constructor that is never reached because an earlier
			// argument failed is delivered to nobody: not judged here)
			if f.Clause == "handed-out-twice" || f.Clause == "identity-served-twice" || f.Clause == "stale-instance" {
				f.Sig += ":after-the-consumer-failed-once"
				fs = append(fs, f)
			}
		}
		report(c, "C03", idx, fr, fs)
		c.R.Count("retry_after_failure_cases", 1)
		c.R.End(idx, eng.Hash("c03-retry", s.Canon(), run.Ctor, run.Nth, int(kind)), true)
	}
}
