package core

import (
	"fmt"
	"math/rand"
	"sort"

	"github.com/junioryono/godi/v4"
	"github.com/junioryono/godi/v4/verifh/eng"
	"github.com/junioryono/godi/v4/verifh/pool"
	"github.com/junioryono/godi/v4/verifh/rt"
)

// owned describes one container-created disposable instance.
type owned struct {
	id     int64
	reg    int
	out    int
	run    *CtorRun
	owner  int  // harness scope id; -1 = provider (singleton); -2 = scope whose creation failed
	orphan bool // output of a registration that was removed after the Add call (created for a sibling's sake)
}

// ownedDisposables lists every disposable instance the container created (successful
// constructor runs of accepted registrations; registered outputs only; instance values are
// not created by the container).
func ownedDisposables(r *Run, o *Obs) []owned {
	var out []owned
	m := r.Model
	for _, run := range o.Runs {
		if run.Reg < 0 || run.ExitSeq == 0 || !m.Accepted(run.Reg) {
			continue
		}
		ri := &m.Regs[run.Reg]
		for j, id := range run.Outs {
			if j >= ri.NumOuts || !ri.Disposes[j] {
				continue
			}
			ow := run.Scope
			if ri.Life == godi.Singleton && ri.LiveOut[j] {
				ow = -1
			}
			// an output whose registration was removed after the Add call is served by nobody, but
			// the invocation (made for a sibling output) created it: it belongs to the scope that
			// ran the constructor and is disposed with it
			out = append(out, owned{id: id, reg: run.Reg, out: j, run: run, owner: ow, orphan: !ri.LiveOut[j]})
		}
	}
	return out
}

// ancestorOrSelf reports whether scope a is s or an ancestor of s (0 = provider root).
func (r *Run) ancestorOrSelf(a, s int) bool {
	for s > 0 {
		if s == a {
			return true
		}
		s = r.Scopes[s].Parent
	}
	return a == 0 && s == 0
}

// MonC10 checks exactly-once / never-early / never-leaked disposal at the end of a history.
func MonC10(r *Run, o *Obs, faultNote string) []Finding {
	var fs []Finding
	m := r.Model
	if r.Poisoned {
		return nil
	}
	for _, d := range o.Decoys {
		fs = append(fs, Finding{"decoy-touched", d.Note, fmt.Sprintf("method %s was called on an instance whose type has no Close() error method", d.Note)})
	}
	ended := !r.Built || r.Scopes[0].Closed
	for _, x := range ownedDisposables(r, o) {
		ri := &m.Regs[x.reg]
		feat := m.Features(x.reg) + faultNote
		if x.orphan {
			feat += ":output-of-a-removed-registration"
		}
		closes := o.Closes[x.id]
		where := fmt.Sprintf("%s of %s (constructed in op%d %s, owner %s)", o.InstName(x.id), m.Describe(x.reg), x.run.Op, opText(r, x.run.Op), ownerName(x.owner))
		if len(closes) > 1 {
			fs = append(fs, Finding{"closed-twice", feat, fmt.Sprintf("%s was closed %d times", where, len(closes))})
		}
		if len(closes) == 0 && ended {
			phase := "resolution"
			if x.run.Op == 0 {
				phase = "build"
			} else if x.run.Op >= 0 && r.Ops[x.run.Op].Kind == OpCreate {
				phase = "scope-creation"
			}
			fs = append(fs, Finding{"never-closed", feat + ":" + phase + ":" + ownerClass(x.owner), fmt.Sprintf("%s was never closed although the history ended with %s", where, endText(r))})
		}
		admissible := func(opIdx int) bool {
			cop := r.Ops[opIdx]
			switch {
			case cop.Kind == OpCloseProvider:
				return true
			case cop.Kind == OpBuild && !r.Built:
				return true // cleanup of a failed Build
			case ri.Life == godi.Singleton:
				return false
			case cop.Kind == OpClose || cop.Kind == OpCancel:
				if x.owner == -2 { // half-built scope: closed with its would-be parent
					return r.ancestorOrSelf(cop.Scope, r.Ops[x.run.Op].Scope)
				}
				return x.owner >= 0 && r.ancestorOrSelf(cop.Scope, x.owner) && cop.Scope != 0
			case cop.Kind == OpCreate && opIdx == x.run.Op && x.owner == -2:
				return true // cleanup of the failed scope creation itself
			}
			return false
		}
		for _, cl := range closes {
			if cl.Op < 0 || cl.Op >= len(r.Ops) {
				// closed by a goroutine of godi's own (the context watcher woken by a Close's
				// cancellation): admissible iff it happened while an admissible Close was executing
				within := false
				for opIdx := range r.Ops {
					if call, ret := o.OpCall[opIdx], o.OpRet[opIdx]; call != 0 && call < cl.Seq && (ret == 0 || cl.Seq < ret) && admissible(opIdx) {
						within = true
						break
					}
				}
				if !within {
					fs = append(fs, Finding{"closed-outside-close", feat, fmt.Sprintf("%s was closed by goroutine %d while no Close of its owner, an ancestor or the provider was executing", where, cl.G)})
				}
				continue
			}
			cop := r.Ops[cl.Op]
			ok := admissible(cl.Op)
			if !ok {
				fs = append(fs, Finding{"closed-early", feat + ":" + lifeName(ri.Life), fmt.Sprintf("%s was closed during op%d %s, which is not a Close of its owner, an ancestor or the provider", where, cl.Op, cop.String())})
			}
		}
	}
	return fs
}

func opText(r *Run, op int) string {
	if op < 0 || op >= len(r.Ops) {
		return "?"
	}
	return r.Ops[op].String()
}

func ownerName(o int) string {
	switch {
	case o == -1:
		return "provider"
	case o == -2:
		return "scope whose creation failed"
	case o == 0:
		return "root scope"
	}
	return fmt.Sprintf("s%d", o)
}

func ownerClass(o int) string {
	switch {
	case o == -1:
		return "singleton"
	case o == -2:
		return "failed-scope"
	case o == 0:
		return "root-scope"
	}
	return "scope"
}

func endText(r *Run) string {
	if !r.Built {
		return "a failed Build"
	}
	return "provider.Close"
}

// MonC11 checks the disposal order of a sequential, failure-free history.
func MonC11(r *Run, o *Obs) (fs []Finding, pairs int) {
	if !r.Built || r.Poisoned {
		return nil, 0
	}
	m := r.Model
	own := ownedDisposables(r, o)
	firstClose := func(id int64) int64 {
		if c := o.Closes[id]; len(c) > 0 {
			return c[0].Seq
		}
		return 0
	}
	byOwner := map[int][]owned{}
	for _, x := range own {
		if firstClose(x.id) == 0 {
			continue // leak: C10's business
		}
		byOwner[x.owner] = append(byOwner[x.owner], x)
	}
	// (1) per owner: closes in exactly the reverse of creation order (ties: outputs of one invocation)
	for ow, xs := range byOwner {
		sort.Slice(xs, func(i, j int) bool { return firstClose(xs[i].id) < firstClose(xs[j].id) })
		for i := 1; i < len(xs); i++ {
			pairs++
			if xs[i].run.ExitSeq > xs[i-1].run.ExitSeq {
				fs = append(fs, Finding{"not-reverse-creation-order", ownerClass(ow), fmt.Sprintf("owner %s: %s (created at seq %d) was closed before %s (created later, at seq %d)", ownerName(ow), o.InstName(xs[i-1].id), xs[i-1].run.ExitSeq, o.InstName(xs[i].id), xs[i].run.ExitSeq)})
				break
			}
		}
	}
	// (2) dependents before dependencies (same owner)
	ownerOf := map[int64]owned{}
	for _, x := range own {
		ownerOf[x.id] = x
	}
	for _, x := range own {
		cx := firstClose(x.id)
		if cx == 0 {
			continue
		}
		for _, a := range x.run.Args {
			for _, id := range a.IDs {
				d, ok := ownerOf[id]
				if !ok || d.owner != x.owner {
					continue
				}
				cd := firstClose(id)
				if cd == 0 {
					continue
				}
				pairs++
				if cd < cx {
					fs = append(fs, Finding{"dependency-closed-before-dependent", ownerClass(x.owner) + ":" + lifeName(m.Regs[x.reg].Life) + "<-" + lifeName(m.Regs[d.reg].Life), fmt.Sprintf("%s was closed (seq %d) while %s, which received it as a dependency, was still open (closed at seq %d)", o.InstName(id), cd, o.InstName(x.id), cx)})
				}
			}
		}
	}
	// (3) descendants completely before the parent's own instances; (4) every scope before any singleton
	var minSingleton int64
	for _, x := range byOwner[-1] {
		if c := firstClose(x.id); minSingleton == 0 || c < minSingleton {
			minSingleton = c
		}
	}
	for ow, xs := range byOwner {
		if ow == -1 {
			continue
		}
		for _, x := range xs {
			cx := firstClose(x.id)
			if minSingleton != 0 {
				pairs++
				if cx > minSingleton {
					fs = append(fs, Finding{"scope-instance-closed-after-singleton", ownerClass(ow), fmt.Sprintf("%s (owner %s) was closed at seq %d, after a singleton had already been closed (seq %d)", o.InstName(x.id), ownerName(ow), cx, minSingleton)})
				}
			}
		}
		if ow <= 0 {
			continue
		}
		// ancestors of ow
		for anc := r.Scopes[ow].Parent; anc > 0; anc = r.Scopes[anc].Parent {
			for _, y := range byOwner[anc] {
				for _, x := range xs {
					pairs++
					if firstClose(x.id) > firstClose(y.id) {
						fs = append(fs, Finding{"parent-disposed-before-descendant", "", fmt.Sprintf("%s of descendant scope s%d was closed (seq %d) after %s of its ancestor s%d (seq %d)", o.InstName(x.id), ow, firstClose(x.id), o.InstName(y.id), anc, firstClose(y.id))})
					}
				}
			}
		}
	}
	return fs, pairs
}

// replay re-executes the operations of a finished run on a fresh run (same spec) under faults.
func replayOps(s *Spec, m *Model, ops []Op, faults []rt.Fault, cfs []rt.CloseFault) *Run {
	r := NewRun(s, m, faults, cfs)
	for _, op := range ops {
		if op.Kind == OpBuild {
			r.Build()
		} else {
			r.Do(op)
		}
	}
	return r
}

func init() {
	eng.Register(&eng.Property{
		ID: "C10", Level: "fault_enumeration",
		Rule: "for every seeded (registration set with disposable services, scope-tree/resolution/close history) the history is executed once fault-free and then once per constructor invocation position k=1..N (during Build, during scope creation = initializers, during resolution) with that invocation failing (returned error where the signature allows, panic otherwise, alternating), and once per Build-time invocation with BuildWithContext cancelled from inside it; " +
			"at the end of every history (provider.Close, or the failing Build returning) every container-created instance with Close() error must have exactly one close event, none before a Close of its owner / an ancestor / the provider (singletons: provider only), and no almost-Close decoy method may have been called. " +
			"Non-trivial: >=1 disposable instance was created; distinct = spec hash + fault position.",
		Shards:     func(tier string) int { return 16 },
		Run:        runC10,
		NeedEvents: []string{"close_events", "disposables_created", "fault_positions", "overlap_with_close_executions", "value_equal_instance_cases"},
		Assumptions: []string{"lenient reading for failed Build / failed scope creation: closed by the end of the history (DESIGN.md §3 C10)",
			"instance values are not created by the container and are excluded", "a fixture family with value-equal instances (no distinguishing field; tracked by pointer) covers multi-output, grouped and separately registered constructors in every lifetime: identity, not value, decides what is tracked for disposal", "the overlap of Close with an in-flight construction is driven with the sandwich schedule of the C13 engine (op parked in a constructor, closer parked inside a disposable Close, op released first)"},
	})
	eng.Register(&eng.Property{
		ID: "C11", Level: "exploration",
		Rule: "seeded dependency DAGs of disposable services over the three lifetimes x scope trees (depth <=3) x resolution orders, closes issued on leaves, inner scopes and the provider; sequential, failure-free. Oracle over global sequence numbers: per owner the close order is the exact reverse of the creation order; a dependency with the same owner is closed after its dependent; " +
			"all instances of descendant scopes before any instance of the ancestor; every scope instance before any singleton. Non-trivial: >=2 ordered pairs checked; distinct = spec + history hash.",
		Shards:      func(tier string) int { return 16 },
		Run:         runC11,
		NeedEvents:  []string{"close_events", "ordered_pairs_checked", "close_vs_close_overlaps"},
		Assumptions: []string{"beyond the sequential quantifier, deterministic close-vs-close overlaps are driven too (a scope still being closed by another goroutine while its parent / the provider is closed) and the same order rules applied", "dependents-before-dependencies is applied to same-owner pairs (a root-scope transient built for a singleton is closed before it, as the statement's last sentence demands)", "outputs of one constructor invocation are a tie", "also outside the failure-free quantifier: the instances a FAILED scope creation had already created are closed under the same order rules"},
	})
}

func disposableBias(rng *rand.Rand) GenOpts {
	return GenOpts{Want: ClsOK, Specials: rng.Intn(2) == 0, Values: rng.Intn(6) == 0, MultiAlias: rng.Intn(3) == 0, OutGroup: rng.Intn(4) == 0, MultiOpt: rng.Intn(4) == 0, Removes: rng.Intn(3) == 0}
}

// C10Overlap is installed by package conc (constructions overlapping a concurrent Close).
var C10Overlap func(c *eng.Ctx, next func() (int, bool))

// C10ReentrantClose (package conc): Close called from inside a Close method, judged for C10.
var C10ReentrantClose func(c *eng.Ctx, next func() (int, bool))

func runC10(c *eng.Ctx) {
	cr := &caseRunner{c: c, prop: "C10"}
	defer func() {
		RunEqualValues(c, "C10", cr.next)
		RunValueDisposables(c, "C10", cr.next)
		RunFuncDisposables(c, "C10", cr.next)
		RunPartialOutputs(c, "C10", cr.next)
		RunDynamicTypeDisposables(c, cr.next)
		RunNonComparableDisposables(c, cr.next)
		RunClosedDuringBuild(c, cr.next)
		if C10Overlap != nil {
			C10Overlap(c, cr.next)
		}
		if C10ReentrantClose != nil {
			C10ReentrantClose(c, cr.next)
		}
	}()
	nSpecs := c.Pick(300, 6000)
	directed := []*Spec{
		// D5: initializer chain where a later initializer fails
		{Regs: []Reg{mkReg("Leaf_K0_a", godi.Scoped), mkReg("VoidK0", godi.Scoped), mkReg("Leaf_K1_a", godi.Scoped), mkReg("ErrOnlyK1", godi.Scoped), mkReg("NewDec0", godi.Scoped), mkReg("NewDec1", godi.Singleton), mkReg("NewDec2", godi.Transient)}},
		{Regs: []Reg{mkReg("MR_K0K1e", godi.Singleton), mkReg("PosB_2_3", godi.Singleton), mkReg("OutE_S0S4", godi.Scoped), mkReg("MR_S1S2S5e", godi.Transient)}},
		{Regs: []Reg{mkReg("Leaf_K0_a", godi.Singleton), mkReg("PosB_1_1", godi.Singleton), mkReg("PosB_2_3", godi.Singleton), mkReg("PosB_3_7", godi.Singleton)}},
		// disposable singletons + root-scope initializers (the last Build phase can fail too)
		{Regs: []Reg{mkReg("Leaf_K0_a", godi.Singleton), mkReg("PosB_1_1", godi.Singleton), mkReg("VoidK0", godi.Scoped), mkReg("ErrOnlyK1", godi.Scoped), mkReg("ErrOnly0", godi.Scoped), mkReg("Leaf_S0_a", godi.Scoped), mkReg("VoidS0", godi.Scoped)}},
		// one instance under several identities (aliases), every lifetime
		{Regs: []Reg{mkReg("Leaf_K0_a", godi.Scoped, withAs("IK0", "IA")), mkReg("Leaf_K1_a", godi.Singleton, withAs("IK1", "IA", "IB"), withName("k")), mkReg("Leaf_K2_a", godi.Transient, withAs("IK2", "IB"), withGroup("g")), mkReg("OutG_K0K1", godi.Scoped), mkReg("MR_S0S4", godi.Transient, withGroup("h"))}},
	}
	// every special constructor form, in every lifetime
	for _, ss := range FormSpecs() {
		directed = append(directed, ss.Spec)
	}
	for di, d := range directed {
		if m := NewModel(d); m.Class != ClsOK {
			panic(fmt.Sprintf("harness fixture %d of C10 (directed) is not buildable: %s", di, m.Class))
		}
	}
	for k := 0; k < nSpecs+len(directed); k++ {
		idx, mine := cr.next()
		if !mine {
			continue
		}
		rng := cr.rng(idx)
		var s *Spec
		var m *Model
		if k < len(directed) {
			s = directed[k]
			m = NewModel(s)
		} else {
			s, m = GenSpec(rng, disposableBias(rng))
		}
		if s == nil {
			continue
		}
		c.R.Begin(idx)
		// fault-free baseline
		base := NewRun(s, m, nil, nil)
		base.Build()
		if base.Built {
			GenScript(rng, base, 1+rng.Intn(4), 4+rng.Intn(10), 15)
			base.Finish()
		}
		o := Digest(base)
		report(c, "C10", idx, base, MonC10(base, o, ""))
		nDisp := len(ownedDisposables(base, o))
		c.R.Count("disposables_created", int64(nDisp))
		c.R.Count("close_events", int64(len(o.CloseOrder)))
		c.R.Count("histories", 1)
		ops := append([]Op{}, base.Ops...)
		// one execution per constructor invocation position
		positions := 0
		for ri, run := range o.Runs {
			meta := &pool.Ctors[run.Ctor]
			kind := rt.FPanic
			if meta.HasErr && ri%3 != 2 {
				kind = rt.FErr
			}
			note := ":fault-err"
			if kind == rt.FPanic {
				note = ":fault-panic"
			}
			fr := replayOps(s, m, ops, []rt.Fault{{Ctor: run.Ctor, Nth: run.Nth, Kind: kind, PanicIdx: ri}}, nil)
			if fr.Built && !fr.Scopes[0].Closed {
				fr.Finish()
			}
			fo := Digest(fr)
			report(c, "C10", idx, fr, MonC10(fr, fo, note))
			positions++
			c.R.Count("close_events", int64(len(fo.CloseOrder)))
			c.R.Count("disposables_created", int64(len(ownedDisposables(fr, fo))))
			phase := "resolution"
			if run.Op == 0 {
				phase = "build"
			} else if run.Op > 0 && base.Ops[run.Op].Kind == OpCreate {
				phase = "scope-creation"
			}
			c.R.Count("fault_positions_"+phase, 1)
			if c.R.WantSample() && phase == "scope-creation" {
				c.R.Sample(sampleOf(fr, map[string]any{"kind": "fault", "failing_invocation": fmt.Sprintf("%s #%d (%s)", meta.Name, run.Nth, note[1:])}))
			}
		}
		// Close methods that fail: whatever a Close returns, every other instance - of the same
		// scope, of the scopes closed after it, and every singleton - is still closed exactly once
		// (one failing instance per execution: the first, a middle and the last created disposable
		// that is not a singleton, and one singleton)
		if base.Built {
			own := ownedDisposables(base, o)
			var scoped, single []owned
			for _, x := range own {
				if x.owner == -1 {
					single = append(single, x)
				} else {
					scoped = append(scoped, x)
				}
			}
			var picks []owned
			if n := len(scoped); n > 0 {
				for _, i := range dedupInts([]int{1, (n + 1) / 2, n}) {
					picks = append(picks, scoped[i-1])
				}
			}
			if n := len(single); n > 0 {
				picks = append(picks, single[(k+n-1)%n])
			}
			for _, x := range picks {
				cf := rt.CloseFault{Ctor: x.run.Ctor, Nth: x.run.Nth, Out: x.out}
				fr := replayOps(s, m, ops, nil, []rt.CloseFault{cf})
				if fr.Built && !fr.Scopes[0].Closed {
					fr.Finish()
				}
				fo := Digest(fr)
				report(c, "C10", idx, fr, MonC10(fr, fo, ":a-close-method-fails"))
				positions++
				c.R.Count("failing_close_positions", 1)
				c.R.Count("close_events", int64(len(fo.CloseOrder)))
			}
		}
		// Build cancelled (BuildWithContext) from inside each constructor invocation of the Build
		for ri, run := range o.Runs {
			if run.Op != 0 {
				continue
			}
			cr2 := NewRun(s, m, nil, nil)
			if (ri+k)%7 == 3 {
				cr2.BuildTimeoutAt(ri + 1) // a few positions through BuildWithOptions' timeout (costs wall-clock time)
				c.R.Count("build_timeout_positions", 1)
			} else {
				cr2.BuildCancelledAt(ri + 1)
			}
			if cr2.Built {
				// the cancellation came with the last singleton: the Build may legitimately succeed
				cr2.Finish()
			}
			co := Digest(cr2)
			report(c, "C10", idx, cr2, MonC10(cr2, co, ":build-cancelled"))
			positions++
			c.R.Count("build_cancellation_positions", 1)
			c.R.Count("close_events", int64(len(co.CloseOrder)))
		}
		c.R.Count("fault_positions", int64(positions))
		c.R.AddEnumerated(int64(positions), int64(positions))
		c.R.End(idx, eng.Hash("c10", s.Canon(), len(ops)), nDisp > 0)
	}
}

// C11Concurrent is installed by package conc: ordering scenarios in which two Close calls
// overlap (a scope still being closed by another goroutine when its parent / the provider is
// closed). The order rules of C11 are about what is closed before what, so they are checked
// on these histories too.
var C11Concurrent func(c *eng.Ctx, next func() (int, bool))

// C11ResolveRace is installed by package conc: two goroutines of one scope resolve a
// dependency and its dependent for the first time at (almost) the same moment; the scope is
// then closed and the C11 order rules applied.
var C11ResolveRace func(c *eng.Ctx, next func() (int, bool))

// C11AgedProcess is installed by package conc (close overlaps after a million goroutines).
var C11AgedProcess func(c *eng.Ctx, next func() (int, bool))

// C11RootHandle is installed by package conc (the root scope closed through its own handle).
var C11RootHandle func(c *eng.Ctx, next func() (int, bool))

// C11ReentrantClose is installed by package conc (a Close method that closes an ancestor scope).
var C11ReentrantClose func(c *eng.Ctx, next func() (int, bool))

// C11CreateVsClose is installed by package conc (CreateScope overlapping the Close of its parent).
var C11CreateVsClose func(c *eng.Ctx, next func() (int, bool))

// MonC11Exported lets package conc apply the C11 order oracle.
func MonC11Exported(r *Run, o *Obs) ([]Finding, int) { return MonC11(r, o) }

// runC11FailedCreation: a scope whose creation fails (an initializer returns an error or panics)
// has already created instances - for earlier initializers, or nested while the failing one's
// arguments were built. They are closed when the creation fails, and the order rules hold for
// them like for any other scope: reverse creation order, dependents before dependencies.
func runC11FailedCreation(c *eng.Ctx, cr *caseRunner) {
	specs := []*Spec{
		// K0, K1(K0) created for the first initializer; the second initializer fails
		{Regs: []Reg{mkReg("Leaf_K0_a", godi.Scoped), mkReg("PosB_1_1", godi.Scoped), mkReg("VoidK1", godi.Scoped), mkReg("ErrOnly0", godi.Scoped)}},
		// created nested while the failing initializer's own arguments are built: K0, K1(K0), K2(K0,K1), K3(K0,K1,K2)
		{Regs: []Reg{mkReg("Leaf_K0_a", godi.Scoped), mkReg("PosB_1_1", godi.Scoped), mkReg("PosB_2_3", godi.Scoped), mkReg("PosB_3_7", godi.Scoped), mkReg("ErrOnlyK2K3", godi.Scoped)}},
		// singletons + transients + scoped mixed, three initializers, the last fails
		{Regs: []Reg{mkReg("Leaf_K0_a", godi.Singleton), mkReg("PosB_1_1", godi.Transient), mkReg("PosB_2_3", godi.Scoped), mkReg("Leaf_S0_a", godi.Scoped), mkReg("PosB_3_7", godi.Scoped), mkReg("VoidS0", godi.Scoped), mkReg("VoidK1", godi.Scoped), mkReg("ErrOnlyK2K3", godi.Scoped)}},
	}
	for si, s := range specs {
		m := NewModel(s)
		if m.Class != ClsOK {
			panic(fmt.Sprintf("harness fixture %d of runC11FailedCreation is not buildable: %s", si, m.Class))
		}
		failing := s.Regs[len(s.Regs)-1].Ctor
		for _, kind := range []rt.FaultKind{rt.FErr, rt.FPanic} {
			for _, where := range []string{"provider.CreateScope", "scope.CreateScope"} {
				idx, mine := cr.next()
				if !mine {
					continue
				}
				c.R.Begin(idx)
				// invocation 1 of the initializer belongs to the root scope (Build); 2 to the helper scope when nested
				nth := 2
				if where == "scope.CreateScope" {
					nth = 3
				}
				r := NewRun(s, m, []rt.Fault{{Ctor: failing, Nth: nth, Kind: kind, PanicIdx: si}}, nil)
				r.Build()
				pairs := 0
				if r.Built {
					parent := 0
					if where == "scope.CreateScope" {
						parent = r.Do(Op{Kind: OpCreate, Scope: 0, CtxKind: 1}).NewScope
					}
					res := r.Do(Op{Kind: OpCreate, Scope: parent, CtxKind: 1})
					if res.Class == "ok" {
						c.R.Inconclusive(idx, "the planned initializer fault did not make the scope creation fail")
					}
					r.Finish()
					o := Digest(r)
					var fs []Finding
					fs, pairs = MonC11(r, o)
					for i := range fs {
						fs[i].Clause = "failed-creation-" + fs[i].Clause
						fs[i].Detail = fmt.Sprintf("%s fails because its last initializer %s: %s", where, map[rt.FaultKind]string{rt.FErr: "returns an error", rt.FPanic: "panics"}[kind], fs[i].Detail)
					}
					report(c, "C11", idx, r, fs)
					c.R.Count("ordered_pairs_checked", int64(pairs))
					c.R.Count("close_events", int64(len(o.CloseOrder)))
					c.R.Count("failed_creation_order_cases", 1)
				}
				c.R.End(idx, eng.Hash("c11-failed-creation", si, int(kind), where), pairs >= 1)
			}
		}
	}
}

// runC11SiblingChurn: one parent whose children come and go in every order before the parent is
// closed. k children are created (each owning disposables), one is closed, a new one is created,
// another one is closed ... (every choice of which), then the parent is closed: whatever
// bookkeeping the parent keeps about its children, every child that is still open is disposed
// completely before the parent's own instances.
func runC11SiblingChurn(c *eng.Ctx, cr *caseRunner) {
	spec := &Spec{Regs: []Reg{mkReg("Leaf_K0_a", godi.Singleton), mkReg("PosA_2_1", godi.Scoped), mkReg("Leaf_S0_a", godi.Scoped), mkReg("Leaf_S1_a", godi.Transient)}}
	m := NewModel(spec)
	if m.Class != ClsOK {
		panic("harness fixture of runC11SiblingChurn is not buildable: " + m.Class.String())
	}
	var plans [][]int // each step: index (into the list of currently open children) of the child to close; after every close but the last a new child is created
	for _, k := range []int{3, 4} {
		for a := 0; a < k; a++ {
			for b := 0; b < k; b++ {
				plans = append(plans, []int{k, a, b})
				if k == 3 {
					for d := 0; d < k; d++ {
						plans = append(plans, []int{k, a, b, d})
					}
				}
			}
		}
	}
	for pi, plan := range plans {
		idx, mine := cr.next()
		if !mine {
			continue
		}
		c.R.Begin(idx)
		r := NewRun(spec, m, nil, nil)
		r.Build()
		if !r.Built {
			panic("harness fixture of runC11SiblingChurn does not build")
		}
		parent := r.Do(Op{Kind: OpCreate, Scope: 0, CtxKind: 1}).NewScope
		ProbeRegistered(r, parent)
		var open []int
		mk := func() {
			ch := r.Do(Op{Kind: OpCreate, Scope: parent, CtxKind: []int{0, 1, 4}[len(r.Scopes)%3]}).NewScope
			if ch > 0 {
				ProbeRegistered(r, ch)
				open = append(open, ch)
			}
		}
		for i := 0; i < plan[0]; i++ {
			mk()
		}
		for si, pick := range plan[1:] {
			if len(open) == 0 {
				break
			}
			i := pick % len(open)
			r.Do(Op{Kind: OpClose, Scope: open[i]})
			open = append(open[:i], open[i+1:]...)
			if si < len(plan)-2 {
				mk()
			}
		}
		r.Do(Op{Kind: OpClose, Scope: parent})
		// the children that were still open must refuse use now
		var fs []Finding
		for _, ch := range open {
			if g := r.Do(Op{Kind: OpGet, Scope: ch, Type: "S0"}); g.Class == "ok" {
				fs = append(fs, Finding{"descendant-open-after-parent-close", "sibling-churn", fmt.Sprintf("child s%d still resolves services after its parent s%d has been closed", ch, parent)})
			}
		}
		r.Finish()
		o := Digest(r)
		ofs, pairs := MonC11(r, o)
		fs = append(fs, ofs...)
		report(c, "C11", idx, r, fs)
		c.R.Count("sibling_churn_cases", 1)
		c.R.Count("ordered_pairs_checked", int64(pairs))
		c.R.Count("close_events", int64(len(o.CloseOrder)))
		c.R.End(idx, eng.Hash("c11-sibling-churn", pi), pairs >= 1)
	}
}

func runC11(c *eng.Ctx) {
	cr := &caseRunner{c: c, prop: "C11"}
	defer func() {
		runC11FailedCreation(c, cr)
		runC11SiblingChurn(c, cr)
		RunClosePanicOrder(c, cr.next)
		RunPassthrough(c, cr.next)
		RunChainedOutputs(c, cr.next)
		if C11Concurrent != nil {
			C11Concurrent(c, cr.next)
		}
		if C11ResolveRace != nil {
			C11ResolveRace(c, cr.next)
		}
		if C11ReentrantClose != nil {
			C11ReentrantClose(c, cr.next)
		}
		if C11RootHandle != nil {
			C11RootHandle(c, cr.next)
		}
		if C11AgedProcess != nil {
			C11AgedProcess(c, cr.next)
		}
		if C11CreateVsClose != nil {
			C11CreateVsClose(c, cr.next)
		}
	}()
	n := c.Pick(1000, 30000)
	directed := []*Spec{
		{Regs: []Reg{mkReg("Leaf_K0_a", godi.Singleton), mkReg("PosA_1_1", godi.Singleton), mkReg("PosA_2_3", godi.Scoped), mkReg("PosB_3_7", godi.Scoped), mkReg("Leaf_S0_a", godi.Scoped), mkReg("Leaf_S1_a", godi.Transient)}},
		{Regs: []Reg{mkReg("Leaf_K0_a", godi.Transient), mkReg("PosA_1_1", godi.Singleton), mkReg("PosA_2_2", godi.Singleton)}},
		// one of two aliases of a singleton removed after the Add call (the first / the second one),
		// consumers of the remaining alias: the instance is still the singleton's, closed after them
		{Regs: []Reg{mkReg("Leaf_K0_a", godi.Singleton, withAs("IA", "IK0")), mkReg("InU_2_1_Iface", godi.Singleton), mkReg("InU_3_1_Iface", godi.Scoped), {Remove: true, RmType: "IA", Tail: true}}},
		{Regs: []Reg{mkReg("Leaf_K0_a", godi.Singleton, withAs("IK0", "IA")), mkReg("InU_2_1_Iface", godi.Singleton), mkReg("InU_3_1_Iface", godi.Transient), {Remove: true, RmType: "IA", Tail: true}}},
		{Regs: []Reg{mkReg("Leaf_K0_a", godi.Scoped, withAs("IA", "IK0")), mkReg("InU_2_1_Iface", godi.Scoped), mkReg("InU_3_1_Iface", godi.Scoped), {Remove: true, RmType: "IA", Tail: true}}},
	}
	for di, d := range directed {
		if m := NewModel(d); m.Class != ClsOK {
			panic(fmt.Sprintf("harness fixture %d of C11 (directed) is not buildable: %s", di, m.Class))
		}
	}
	for k := 0; k < n+len(directed); k++ {
		idx, mine := cr.next()
		if !mine {
			continue
		}
		rng := cr.rng(idx)
		var s *Spec
		var m *Model
		if k < len(directed) {
			s = directed[k]
			m = NewModel(s)
		} else {
			s, m = GenSpec(rng, GenOpts{Want: ClsOK, Specials: k%4 == 0})
		}
		if s == nil {
			continue
		}
		c.R.Begin(idx)
		r := NewRun(s, m, nil, nil)
		r.Build()
		if r.Built {
			// scope tree, resolutions in random order, closes on leaves / inner scopes
			GenScript(rng, r, 2+rng.Intn(5), 8+rng.Intn(16), 12)
			if rng.Intn(2) == 0 {
				// full probe on a 3-level chain, then close the middle one
				a := r.Do(Op{Kind: OpCreate, Scope: 0, CtxKind: 1})
				b := r.Do(Op{Kind: OpCreate, Scope: a.NewScope, CtxKind: 0})
				cc := r.Do(Op{Kind: OpCreate, Scope: b.NewScope, CtxKind: 1})
				ProbeRegistered(r, cc.NewScope)
				ProbeRegistered(r, a.NewScope)
				ProbeRegistered(r, b.NewScope)
				r.Do(Op{Kind: OpClose, Scope: b.NewScope})
			}
			r.Finish()
		}
		o := Digest(r)
		fs, pairs := MonC11(r, o)
		report(c, "C11", idx, r, fs)
		c.R.Count("ordered_pairs_checked", int64(pairs))
		c.R.Count("close_events", int64(len(o.CloseOrder)))
		c.R.Count("ctor_invocations", int64(len(o.Runs)))
		if c.R.WantSample() && pairs > 10 {
			c.R.Sample(sampleOf(r, map[string]any{"ordered_pairs_checked": pairs}))
		}
		c.R.End(idx, eng.Hash("c11", s.Canon(), len(r.Ops)), pairs >= 2)
	}
	// the same oracle over histories in which one constructor invocation (during a resolution)
	// fails once and the request is repeated: what the failed attempt had created for it stays
	// open - and is closed in order - like everything else the scope owns
	nf := c.Pick(300, 5000)
	for k := 0; k < nf; k++ {
		idx, mine := cr.next()
		if !mine {
			continue
		}
		rng := cr.rng(idx)
		s, m := GenSpec(rng, disposableBias(rng))
		if s == nil {
			continue
		}
		c.R.Begin(idx)
		base := NewRun(s, m, nil, nil)
		base.Build()
		if base.Built {
			GenScript(rng, base, 2+rng.Intn(4), 8+rng.Intn(12), 10)
			base.Finish()
		}
		o := Digest(base)
		var cands []int
		for ri, run := range o.Runs {
			if run.Reg >= 0 && run.Op > 0 && run.Op < len(base.Ops) && (base.Ops[run.Op].Kind == OpGet || base.Ops[run.Op].Kind == OpGetGroup) && len(run.Args) > 0 {
				cands = append(cands, ri)
			}
		}
		if !base.Built || len(cands) == 0 {
			c.R.End(idx, eng.Hash("c11-retry-none", s.Canon()), false)
			continue
		}
		run := o.Runs[cands[rng.Intn(len(cands))]]
		kind := rt.FPanic
		if pool.Ctors[run.Ctor].HasErr && rng.Intn(2) == 0 {
			kind = rt.FErr
		}
		ops := append([]Op{}, base.Ops[:run.Op+1]...)
		ops = append(ops, base.Ops[run.Op])
		ops = append(ops, base.Ops[run.Op+1:]...)
		fr := replayOps(s, m, ops, []rt.Fault{{Ctor: run.Ctor, Nth: run.Nth, Kind: kind, PanicIdx: k % len(rt.PanicVals)}}, nil)
		fo := Digest(fr)
		fs, pairs := MonC11(fr, fo)
		for i := range fs {
			fs[i].Sig += ":a-constructor-failed-once"
		}
		report(c, "C11", idx, fr, fs)
		c.R.Count("ordered_pairs_checked", int64(pairs))
		c.R.Count("retry_after_failure_cases", 1)
		c.R.End(idx, eng.Hash("c11-retry", s.Canon(), run.Ctor, run.Nth, int(kind)), pairs >= 2)
	}
}
