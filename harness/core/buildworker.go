package core

import (
	"fmt"
	"sync"
	"sync/atomic"
	"time"

	"github.com/junioryono/godi/v4"
	"github.com/junioryono/godi/v4/verifh/eng"
)

// A background worker that asks for a singleton while Build is still constructing it.
//
// The documented background-worker layout: a singleton (the queue) whose constructor starts the
// worker goroutine and hands it the Provider; the worker resolves a shared singleton (the metrics)
// for its first job. The queue is built first (the metrics depend on it), so the worker may ask for
// the metrics while Build is inside their constructor. Whatever the worker's request returns - an
// error is fine - "the constructor behind each singleton registration has run exactly once", and
// every way of obtaining the service yields that one instance.

type bwQueue struct{ w *bwWorld }
type bwMetrics struct{ n int32 }

type bwWorld struct {
	calls     atomic.Int32
	entered   chan struct{} // the first invocation of the metrics constructor is running
	reentered chan struct{} // a second invocation began
	worker    chan struct{} // the worker's request returned
	got       *bwMetrics
	gotErr    error
	once      sync.Once
}

var (
	bwMu  sync.Mutex
	bwCur *bwWorld
)

func bwGet() *bwWorld { bwMu.Lock(); defer bwMu.Unlock(); return bwCur }

func bwNewQueue(p godi.Provider) *bwQueue {
	w := bwGet()
	go func() {
		defer close(w.worker)
		select {
		case <-w.entered:
		case <-time.After(20 * time.Second):
			return
		}
		w.got, w.gotErr = godi.Resolve[*bwMetrics](p)
	}()
	return &bwQueue{w}
}

func bwNewMetrics(q *bwQueue) *bwMetrics {
	w := q.w
	n := w.calls.Add(1)
	if n > 1 {
		w.once.Do(func() { close(w.reentered) })
		return &bwMetrics{n}
	}
	close(w.entered)
	// wait until the worker's request has returned or has entered this constructor again
	select {
	case <-w.worker:
	case <-w.reentered:
	case <-time.After(20 * time.Second):
	}
	return &bwMetrics{n}
}

func RunBuildTimeWorker(c *eng.Ctx, next func() (int, bool)) {
	for _, order := range []string{"queue-registered-first", "metrics-registered-first"} {
		idx, mine := next()
		if !mine {
			continue
		}
		c.R.Begin(idx)
		viol := func(clause, detail string) {
			c.R.Violation(eng.Violation{Prop: "C01", Clause: clause, Sig: "C01/" + clause + ":singleton-requested-by-a-worker-goroutine-during-Build:" + order, Case: idx, CaseID: "build-time-worker-" + order,
				Detail: order + ": " + detail, Replay: map[string]any{"fixture": "build-time-worker", "order": order}})
		}
		func() {
			defer func() {
				if p := recover(); p != nil {
					viol("api-call-panics", fmt.Sprintf("panic: %v", p))
				}
			}()
			w := &bwWorld{entered: make(chan struct{}), reentered: make(chan struct{}), worker: make(chan struct{})}
			bwMu.Lock()
			bwCur = w
			bwMu.Unlock()
			coll := godi.NewCollection()
			adds := []func() error{func() error { return coll.AddSingleton(bwNewQueue) }, func() error { return coll.AddSingleton(bwNewMetrics) }}
			if order == "metrics-registered-first" {
				adds[0], adds[1] = adds[1], adds[0]
			}
			for _, add := range adds {
				if err := add(); err != nil {
					panic("build-time-worker fixture: " + err.Error())
				}
			}
			prov, err := coll.Build()
			if err != nil {
				panic("build-time-worker fixture does not build: " + err.Error())
			}
			defer prov.Close()
			select {
			case <-w.worker:
			case <-time.After(25 * time.Second):
				c.R.Inconclusive(idx, "the worker goroutine did not finish within the bound")
				return
			}
			c.R.Count("build_time_worker_cases", 1)
			if n := w.calls.Load(); n != 1 {
				viol("ctor-count", fmt.Sprintf("the constructor of the singleton *bwMetrics ran %d times (Build once; a worker goroutine asked for it while Build was inside that constructor)", n))
			}
			m, err := godi.Resolve[*bwMetrics](prov)
			if err != nil {
				viol("registered-identity-fails", fmt.Sprintf("Resolve[*bwMetrics](provider) after Build: %v", err))
				return
			}
			if w.gotErr == nil && w.got != nil && w.got != m {
				viol("identity", "the worker goroutine was handed another instance of the singleton than the provider serves")
			}
		}()
		c.R.End(idx, eng.Hash("c01-build-time-worker", order), true)
	}
}
