#!/usr/bin/env python3
"""Regenerates /verif/MANIFEST.json from the table below (single source of truth).
Run: python3 tools/mkmanifest.py   — validates against /root/.vp/MANIFEST.schema.json when jsonschema is available."""
import json, os, subprocess, sys

VERIF = os.path.dirname(os.path.dirname(os.path.abspath(__file__)))

BASELINE_OFF = ("for m in . ./chi ./echo ./fiber ./gin ./http; do (cd /repo/$m && GOFLAGS=-mod=mod GOPROXY=off "
                "go test -vet=off -count=1 -timeout 25m ./...) || exit 1; done")

# id -> (engine, level, technique, text, note, design_ref)
CHECKS = {}

def chk(pid, engine, level, technique, text, note, ref):
    CHECKS[pid] = dict(engine=engine, level=level, technique=technique, text=text, note=note, ref=ref)

EX = "exploration"
FE = "fault_enumeration"

chk("C01", "core-exec", EX,
    "runtime monitor over an event log: constructor-invocation counters + instance identity joined with a reference model; concurrent phase with real goroutines",
    "Held on the executions produced: directed witnesses, 1 500 (quick) / 40 000 (thorough) seeded buildable registration sets (all lifetimes, keys, groups, In/Out objects, aliases, multi-return, instance values) each with a scope-tree/resolution history, "
    "plus 40 / 600 concurrent programs (8-32 goroutines resolving the same singletons from different scopes). Every observation of a singleton identity (direct, keyed, group, injected argument, any scope depth) is compared with the output of the single Build-time invocation.",
    "Trusted: the generated constructor pool (distinct top-level functions) and the reference model in harness/core/model.go. Interleavings inside godi are sampled, not enumerated.",
    "DESIGN.md §3 C01")
chk("C02", "conc", EX,
    "runtime monitor on the -race build: per-(registration, scope) construction counters and instance identity; cache-miss-window stress; parked-constructor schedules at user-code yield points; porcupine set-once register",
    "Held on: 600 / 20 000 sequential seeded histories; 200 / 5 000 rounds where 2-16 goroutines resolve one scoped identity (directly, through dependents, through groups, different outputs of one constructor) on one scope behind a barrier while constructors yield; "
    "60 / 600 deterministic schedules with one goroutine parked inside the constructor while another resolves the same identity. Initializers: exactly once per scope creation.",
    "A failed construction yields no instance (only successful constructions are counted). Instance values are excluded from never-shared.",
    "DESIGN.md §3 C02")
chk("C03", "core-exec", EX,
    "runtime monitor over an event log: every delivery (result or constructor argument) of a transient joined with the constructor invocation that produced it",
    "Held on directed cases + 1 500 / 40 000 seeded sets biased to transients (consumed by singletons at Build, scoped services, other transients, twice by one constructor, keyed, in groups, across scopes): no instance delivered twice, produced inside the enclosing operation, #invocations = #request sites.",
    "Failure-free histories only; constructor-registered transients only (statement).",
    "DESIGN.md §3 C03")
chk("C04", "core-exec", EX,
    "runtime monitor: producer registration of every resolved value and of every constructor argument vs the reference binding table; whole identity universe probed; function-value-kind clause",
    "Held on: 8 function-value kinds (top-level, noinline closures, method values, generic instantiations, reflect.MakeFunc same/different signatures, mixed) x 3 lifetimes; all pairs of ~75 registration forms (each probing all 44 types x {nil,k,k2} keys and {g,h} groups = 410 000 probes in quick); 1 000 / 40 000 seeded random sets.",
    "Optional dependencies are never combined with a failing provider constructor (DESIGN §7.2).",
    "DESIGN.md §3 C04")
chk("C05", "graphx+core-exec", EX,
    "runtime monitor: independent DFS/SCC oracle vs the real graph (exhaustive small digraphs) and vs Build (registration sets realising digraphs with every edge form); reported path checked edge by edge; process-crash attribution for non-termination",
    "Graph component: ALL 66 066 digraphs on 1-4 labelled nodes incl. self-loops, each inserted deferred+DetectCycles and incrementally in two orders, plus 400 / 20 000 random 5-40 node graphs. Container: digraphs over K0..K3 x {plain, name:, group:, optional, alias} edges (3 000 sampled in quick, all 327 680 in thorough) + 800 / 20 000 random sets; every successfully built provider resolves every identity (a stack overflow is attributed to the journaled case).",
    "Both path conventions accepted; group placeholder nodes are contracted; worker stack limit lowered to 64 MB.",
    "DESIGN.md §3 C05")
chk("C06", "graphx+core-exec", EX,
    "runtime monitor: repeated builds + permuted registration orders compared by verdict class and canonical object graph; constructor enter/exit order vs the dependency partial order; topological-order validity on exhaustive DAGs",
    "Graph component as C05 (every DAG among all digraphs on <=4 nodes + random DAGs: each node once, dependencies first, cached calls stay valid). Container: 400 / 8 000 seeded sets, each built R=8/32 times and under P=4/8 permutations (relative order inside groups preserved).",
    "Object graphs are compared as trees of constructor names (sharing is C01/C02's business).",
    "DESIGN.md §3 C06")
chk("C07", "core-exec", EX,
    "runtime monitor: Build verdict vs reference lifetime rule on exhaustively enumerated small spaces; scan of every argument singleton/transient constructors received for instances of scoped registrations",
    "Exhaustive: all 25 DAGs on 3 services x 27 lifetime assignments x 125 per-target edge-form assignments (84 375 sets, every run); 4 services: all 543 DAGs x 81 lifetimes x 5 uniform forms (5 000 sampled in quick, all 219 915 in thorough); 600 / 20 000 random larger sets of both classes.",
    "Sets with another defect (cycle, missing dependency) are excluded, as the statement says.",
    "DESIGN.md §3 C07")
chk("C08", "core-exec", EX,
    "runtime monitor: Build verdict vs reference model of unsatisfied required dependencies; errors.Is(ErrServiceNotFound) on every resolution after a successful Build",
    "Held on directed cases + 2 000 / 50 000 seeded sets: valid ones (acceptance: empty groups, absent optional dependencies, initializers needing singletons) and the same sets with 1-3 dependency providers removed (soundness), all lifetimes and constructor forms incl. initializers.",
    "Only the class 'Build fails' is required for sets with a missing dependency.",
    "DESIGN.md §3 C08")
chk("C09", "conc", EX,
    "Go race detector over a repeated stress workload (shard workers run with GOMAXPROCS default/4/2/8 in turn); recovered-panic / deadlock / result-class monitors; seeded controlled scheduler at user-code yield points; porcupine linearizability against a scope-tree model; real-time closed-means-closed rule",
    "Held on 300 / 6 000 stress programs (4-16 goroutines x 20-60 ops: Get*/Resolve*/CreateScope/child CreateScope/Close/cancel/mid-run provider.Close) and 400 / 20 000 controlled schedules of 9 small programs; evidence reports distinct schedule traces, overlapping op pairs, race reports.",
    "Races are attributed to godi only when a conflicting access happens in godi code. Interleavings inside godi's critical sections are sampled.",
    "DESIGN.md §3 C09")
chk("C10", "core-exec", FE,
    "fault enumeration + conservation monitor over the event log (created-by-container = closed-exactly-once, never before an owner Close, decoys untouched)",
    "For 300 / 6 000 seeded (set, history) pairs the history runs fault-free and then once per constructor invocation position (Build, scope creation, resolution) with that invocation failing (error / panic alternating): ~2 000 / 40 000 executions.",
    "Lenient reading for failed Build / scope creation: closed by the end of the history. Instance values excluded. Close-vs-construction overlap is C13's.",
    "DESIGN.md §3 C10")
chk("C11", "core-exec", EX,
    "runtime monitor over global sequence numbers: reverse-creation order per owner, dependents before dependencies, descendants before ancestors, scopes before singletons",
    "Held on 1 000 / 30 000 seeded DAGs of disposables x scope trees (depth <=3) x resolution orders, closes on leaves, inner scopes and the provider; ~43 000 ordered pairs checked in quick.",
    "Sequential failure-free histories (quantifier). Same-owner pairs for dependents-before-dependencies; outputs of one invocation are a tie.",
    "DESIGN.md §3 C11")
chk("C12", "conc", FE,
    "fault enumeration over subsets of failing Close methods + close-count / return-value monitors; concurrent Close groups behind a barrier on the -race build",
    "For 120 / 3 000 seeded (set, scope tree, history): every subset of <=6 owned disposables failing on Close (2^n) or seeded subsets beyond; sequential plans repeat every Close, concurrent plans use 2-8 goroutines per Close optionally racing the context watcher.",
    "When a Close races the context watcher the watcher may be the one that disposes (its error is dropped by design).",
    "DESIGN.md §3 C12")
chk("C13", "conc", EX,
    "controlled interleavings exhaustive over the user-code pause points of one operation vs one Close (and the mirror image), recovered-panic / hang monitors, conservation, porcupine; sequential closed-means-closed probes",
    "Held on 300 / 8 000 sequential histories and on every pause point of 29 (operation x closer) scenarios (x1 / x6 repetitions): op parked at each constructor callback while scope.Close / ancestor.Close / provider.Close / cancel runs to completion, and closer parked inside each disposable Close while the op runs (~700 overlap executions in quick).",
    "Wall clock only steers schedules and bounds waits (expiry = inconclusive unless goroutines are stuck in godi in two samples).",
    "DESIGN.md §3 C13")
chk("C14", "leak", EX,
    "weak pointers + goroutine accounting + context Done monitors over N create-use-close cycles; fault enumeration over initializer positions",
    "Held on ~160 cycle cases (hosts x caller contexts x tree shapes x close modes, N=200 then 400 / 5 000 then 10 000) and ~440 fault cases (Build / provider.CreateScope / child / grandchild x initializer orders x every position x 4 failure kinds).",
    "Goroutine poll bounded at 10 s; leftovers without godi frames are inconclusive. Heap deltas are information only.",
    "DESIGN.md §3 C14")
chk("C15", "core-exec", FE,
    "API fuzz under recover(); fault enumeration over constructor invocation positions with error / nil / panic(value menu) + errors.Is/As classification, immediate retry and survivor-disposal monitors; class-error probes through every wrapper",
    "Held on 36 service values x 13 option sets x 3 lifetimes, 56 odd-argument calls, 16 class probes, and 300 / 6 000 seeded (set, history) pairs x every constructor position (~1 700 / 34 000 faulted executions with retry).",
    "Hashable keys (statement). A constructor returning nil must only not panic the container.",
    "DESIGN.md §3 C15")
chk("C16", "web", EX,
    "request driver over the five integrations with a spy provider and recording scoped services; per-request monitors; concurrent batches on the -race build",
    "Held on 10 912 / 74 320 cases: 5 frameworks x 32 option sets x 11 exit paths x 6/40 request sequences, real httptest.Server cases (client abort), 40 / 200 concurrent batches of 16-64 requests.",
    "go-chi and echo/middleware are not in the module cache: chi is driven as plain net/http middleware, echo gets a harness recover middleware. Close invoked twice is fine; disposed exactly once is what counts.",
    "DESIGN.md §3 C16")
chk("C17", "registry-seq", EX,
    "operation-sequence monitor of Collection against a reference registry; provider snapshots re-queried after later edits",
    "Held on ALL sequences of length <=3 / <=4 over a 16-op alphabet + 1 000 / 30 000 random sequences of length 20 over 4 types x 2 keys x 2 groups; after every step views, a fresh Build (which constructors run, which identities resolve) and every earlier provider are compared with the reference.",
    "Where the statement is silent (Remove(T) vs keyed/grouped registrations, Count of identities vs calls) every mutually consistent outcome is accepted.",
    "DESIGN.md §3 C17")
chk("C18", "core-exec", EX,
    "runtime monitor: identity (==) of injected Scope/Provider/Context values vs the scope an operation was issued on; context value/cancellation propagation; FromContext on derived contexts; reserved-type registration attempts",
    "Held on 12 reserved-registration attempts and 300 / 8 000 seeded (built-in consumers of every lifetime, scope tree with nil / Background / cancellable / value contexts, history): ~16 000 injected built-ins, ~4 800 FromContext checks in quick.",
    "Singletons are expected to receive the root scope and its context.",
    "DESIGN.md §3 C18")
chk("C19", "graphx", EX,
    "runtime monitor: reference-model comparison after every step of enumerated/random operation sequences on the real internal/graph",
    "Every public query of the real DependencyGraph is compared with a map-of-lists reference digraph after every step of ALL operation sequences of length <=3 / <=4 over a 52-op alphabet, plus 2 000 / 60 000 random sequences of length 30-200 over 12 node identities (types x keys x groups).",
    "Immediate adds only on graphs that passed the cycle check; depths only on acyclic graphs; exact degrees only without duplicate edges.",
    "DESIGN.md §3 C19")
chk("C20", "registry-seq", EX,
    "twin monitor: module tree applied through AddModules vs its left-to-right flattening applied by direct calls; ModuleError chain walk",
    "Held on 800 / 25 000 random module trees (depth <=4, nil entries, Remove/RemoveKeyed leaves, a failing leaf planted at a uniformly chosen position in 45%): identical views, Build class, constructors run and 35-identity resolution table; ModuleError once per enclosing named module, outermost first, cause reachable.",
    "Twins only, so defects of the registry itself affect both sides identically.",
    "DESIGN.md §3 C20")

NOT_YET = {}

ENGINES = [
    {"name": "graphx", "path": "harness/graphx", "serves_properties": ["C05", "C06", "C19"],
     "kind_free_text": "reference-digraph monitor over the real internal/graph package (exhaustive small graphs/sequences + seeded random)"},
    {"name": "core-exec", "path": "harness/core (+ pool, poolgen, rt)", "serves_properties": ["C01", "C03", "C04", "C05", "C06", "C07", "C08", "C10", "C11", "C15", "C18"],
     "kind_free_text": "generated static constructor pool + event log + reference model of the documented container semantics; monitors are pure functions over the recorded events"},
    {"name": "registry-seq", "path": "harness/regx", "serves_properties": ["C17", "C20"],
     "kind_free_text": "operation-sequence monitor of Collection/modules against a reference registry"},
    {"name": "conc", "path": "harness/conc", "serves_properties": ["C02", "C09", "C12", "C13"],
     "kind_free_text": "-race worker: stress, controlled interleavings at user-code yield points, porcupine linearizability of recorded histories"},
    {"name": "leak", "path": "harness/leak", "serves_properties": ["C14"],
     "kind_free_text": "weak-pointer / goroutine / context accounting over create-use-close cycles"},
    {"name": "web", "path": "harness/web", "serves_properties": ["C16"],
     "kind_free_text": "request driver over the five integrations with a spy provider and recording services"},
]

# additions made while the checks were strengthened against seeded changes (DESIGN.md §8.5)
EXTRA = {
 "C01": "Also: Remove/re-Add tail steps, intermediate Builds of the same collection, cross-scope concurrent first resolutions. An argument slot bound to a registered singleton that receives no instance (fault-free histories) is a finding. Form catalogue: every special constructor form as a minimal valid singleton set; multi-output singletons whose first invocation returns nil outputs; a worker goroutine started by a singleton constructor that asks for a singleton Build is constructing; a resolved value that is none of the constructor's outputs is an identity finding. Waves 15/16: members of one group registered around Remove steps (collection back to the same size); variadic shared-code constructors; sibling providers (the provider of an intermediate Build kept alive and re-used, judged against itself) and a service swapped for one of another lifetime between two Builds.",
 "C02": "Also: failing first constructions inside the window, cross-scope rounds, and initializers registered under a name (resolved by key and as a dependency, sequentially and from 2-8 goroutines) - still one run per scope. Multi-output constructors whose retry returns one object for two outputs; multi-output constructors with a grouped first output in the window workload. Form catalogue (scoped); resolvers queued behind a parked construction of a scoped service with and without a Close method when the scope is closed (event-steered); a scope opened and kept by a singleton constructor during Build (initializers run once there too). Waves 15/16: a goroutine started by a scope initializer resolves from the half-built scope (steered at a yield point); a live provider creates one more scope after its collection lost a named initializer. Wave 17: function-value-kind catalogue (shared-code constructors, variadic ones among them) judged for scoped registrations. Two scopes (siblings, root and child, parent and child) construct one service at once, held between 'first argument resolved' and 'constructor called': each gets its own scope's instances. Wave 18: one scoped constructor under several As aliases (plain and keyed), different aliases asked for at the same moment (window and parked schedules).",
 "C03": "Also: identity-served-twice across groups/keys, concurrent sections across scopes. Form catalogue (transient); a constructor that received transients fails once and is asked again in the same scope (arguments as fresh as the first time); an optional slot while the transient provider fails. Waves 15/16: transient functions without a service result (runs == request sites, none at Build / CreateScope); sibling providers and swapped services (Remove + Add with the same registration count).",
 "C04": "Also: In structs with embedded structs (promoted fields stay untouched), value-equal instances told apart by pointer, collections used, extended and built again (optional dependency / group member registered after the first Build). Add calls refused half-way after a group member / identity / alias of theirs went in; several ready values of one type under aliases, keys and groups; a group of twelve members; variadic constructors; lookups under keys of another Go type with the same underlying string. Waves 15/16: group members around Remove steps for all lifetimes; variadic closures / method values / MakeFunc sharing code; swapped services; sibling providers. Wave 17: two parameter-object types with one name (function-local types) and different tags; Build / BuildWithContext / BuildWithOptions in turn.",
 "C05": "Also: verdict queries between incremental adds and after every rejected add (stale caches). Slot catalogue (core/slots.go): every unusual declaration form (two fields of one Go type, embedded fields, name+group fields, repeated parameters, ...) x every dependency slot, valid and with the cycle closed through that slot; Remove + re-Add by a constructor that depends on a remaining output of the same Add call. Waves 15/16: cycles through named functions without a result (all lifetimes, Build under a watchdog); a live provider after a failed Build and an edit that closes a cycle; a refused Build of one collection followed by a valid collection of the same types. Wave 17: a failed scoped / transient construction asked for again (directly, through consumers, through optional fields) under a watchdog; grow-sort-grow-sort on the graph; build doors. Wave 18: every cyclic set is also reached in two steps - the longest buildable prefix is built and used first, the registrations closing the cycle follow, the Build under observation comes last.",
 "C06": "Also: intermediate Builds; sort-vs-mutation concurrency on the graph. Sets built once while valid, then a required dependency removed: same verdict as a fresh collection with the same registrations. Ready values (several of one type) named by what they were registered as; directed sets with an identity of a multi-identity registration removed and registered again. Waves 15/16: a singleton that opens (keeps / closes) a scope during Build next to initializers that need singletons, all 24 registration orders x repeated builds; the initializer of one build-time scope closing the other. Wave 17: the graph is sorted, grown by dependency-free providers through both doors, and sorted again. Wave 18: a collection with a removal in its history against a collection that only ever saw what is left (optional dependency on the removed scoped service; with an intermediate Build; with re-registration).",
 "C07": "Also: directed multi-identity + Remove specs, intermediate Builds, optional / alias / group dependency forms. Slot catalogue: every unusual declaration form x every slot, valid and captive through that slot. Ready values (plain, keyed, grouped, aliased) as the depended-on registration in every lifetime pair; a captive consumer registered after a provider of the collection retried a multi-output constructor (second Build of the same collection). Wave 16: swapped services whose second Build must be refused (first provider closed or alive); sibling providers in the random sets. Wave 17: every verdict through Build, BuildWithContext, BuildWithOptions(nil) and BuildWithOptions(BuildTimeout) in turn. Wave 18: a scoped member registered in a consumed group AFTER Build (alone, next to other edits, through a module) must not reach the consumers of the provider built before; the second Build is refused.",
 "C08": "Also: Remove of the first sibling of a multi-output registration, required keyed dependencies on the built-in types (never satisfiable). Slot catalogue (valid / that slot's provider missing); a singleton constructor that opens a scope through the injected Provider during Build while a scope initializer takes a singleton that does not exist yet. Variadic constructors with the slice type registered (accepted, resolvable) and not registered (whatever Build accepts does not fail with 'service not found'). Waves 15/16: zero-valued single results of value types (a struct that only carries unregistered optional dependencies); swapped services; a refused Build of ANOTHER collection right before a valid one (process-wide state). Wave 17: build doors. Wave 18: named functions without a result registered and removed before Build (alone / with the service they needed / registered again), acceptance compared with a fresh collection holding what is left.",
 "C09": "Also: shared-code constructors under overlap, provider.Close overlapping CreateScope on a still-open scope, worker watchdog for operations that never return. A fixed stress spec of multi-output constructors (grouped first output, keyed multi-return) in every lifetime. The root scope closed through its own handle while the provider is closed; close overlaps in an aged process (more than a million goroutines started); a Close method that joins a worker resolving from the scope being closed.",
 "C10": "Also: BuildWithContext cancelled from inside each Build-time invocation, aliases / multi-alias registrations, value-equal instances (tracked by pointer), disposables handed out by value (handle 0, zero-valued struct), Close overlapping in-flight constructions. Form catalogue in every lifetime; one disposable instance under two identities in the Close-overlap engine; outputs of registrations removed after the Add call; one failing Close per execution. Waves 15/16: re-entrant closes through grouping scopes that own nothing (a Close that never returns = leaked); an interface-typed registration whose constructor alternates between an implementation with and without Close. Wave 17: container-created disposables of non-comparable types (slice, map) under As aliases (fix 923d501). Wave 18: the provider closed by a singleton constructor during Build (the instance the closing constructor returns, one created before, one never reached; fix ad06ea1).",
 "C11": "Also: close-vs-close overlaps (leaf Close or context watcher parked inside each disposable Close while parent / grandparent / provider is closed; top-level scope being closed vs provider.Close) and the first-resolution race. CreateScope overlapping the Close of its parent / an ancestor at every callback and internal yield point, judged by the order rules. Close methods that close their own scope / an ancestor (directly, by cancel, from a descendant's instance) with the order judged; one alias of a singleton removed; the order oracle over histories in which a constructor fails once and the request is repeated; the root scope closed through its handle; aged-process overlaps; sibling churn. Wave 15: re-entrant closes with two sibling child scopes, grouping scopes. Wave 17: scopes created ON the root-scope handle and below; the handle closed: descendants first.",
 "C12": "Also: derived-context children, slow Close hooks, the close-is-complete clause for the last-returning call of a group of overlapping Closes, graceful-shutdown plans. Scopes whose context derives from the provider's root context (children of the root scope, provider scopes on the injected root context) with failing Close methods. Close called from inside a Close method: own scope, ancestor, provider; instance in a nested, top-level or the root scope; closed directly / by cancel / by a parent; a sibling instance failing (the interrupted Close reports it); aged-process overlaps; CreateScope overlapping a Close with initializers that built disposables. Waves 15/16: ready values with a failing Close under aliases (removed / only a later alias resolved): error iff a Close method failed, ownership independent of the alias; sibling scopes on a context derived from another scope's context (fix 9e88956). Wave 17: grandchildren on their uncles' contexts (both fail: the aggregate lists both). Wave 18: derived-context shapes with scopes opened from the provider's root scope.",
 "C13": "Also: ancestor Close overlapping an in-flight Close of a descendant (probe at the return of the ancestor's Close), descendant-survives-close after overlapping CreateScope. Two or three more resolvers of the same scoped service queued behind the in-flight construction when the Close arrives. The re-entrant fixture's hang clause (provider closed from the Close of a top-level / root-scope instance); waiters behind scoped services with dependencies, leaves with and without Close; instances under two aliases in every overlap scenario. Waves 15/16: nested scope creation from an initializer while the provider closes (judged for C13 too); two providers behind nested web scope middlewares (in-flight request, closed provider); the two-goroutine re-entrant close is the one KNOWN-FINDING. Wave 17: descendants of the root-scope handle report the disposed error after the handle was closed. Wave 18: the on-ancestor sandwich also for CreateScope; a scope handed out by a CreateScope overlapping the cascade refuses use once the closing call returned.",
 "C14": "Also: Close-error variants, contexts already done at creation, and a create-vs-close race workload (a parent's Close racing the creation of its children under contention on the provider's bookkeeping; weak-pointer oracle with the provider still open). A unit of work that closes its own scope; requests rejected by a configured middleware in all five web integrations; groups with members of different lifetimes; the scope middleware installed on two levels; an instance whose Close waits for a worker bound to the scope's context. Waves 15/16: scope creations refused while the provider closes, under an application context of its own type (goroutines back to baseline); two containers sharing a constructor with an optional field (nothing of a closed scope is handed out again). Wave 17: one instance under two identities (As aliases, one object returned for two outputs), transient / scoped, in cycles: collectable with the provider open. Cycles whose Close reports an error (a scoped / transient instance fails to close; nested scope too), under the provider and under a long-lived parent scope: scopes and instances collectable. Wave 18: per-cycle scope trees opened from the provider's root scope (host=root).",
 "C15": "Also: constructor error values of several shapes (stateless zero-valued struct / int errors, wrapped, chains containing godi's own BuildError), constructors with concrete error result types, concurrent waiters behind a failing construction. BuildWithContext cancelled inside the first / middle / last constructor of the Build: no panic and nothing constructed stays undisposed. BuildWithOptions with a constructor failing after the time limit elapsed; result lists beyond the usual shapes ((Out, T, error), (*Out, T, error), (T, T, T, error)); a Build whose clean-up fails too; module options applied to a nil Collection; the nil output of a multi-output constructor requested first (the sibling it produced stays owned); an optional dependency whose provider fails once. Waves 15/16: panic values that read like reflect / runtime messages; failure classes after a second Build of an edited collection. Wave 17: variadic constructors that panic / fail (every lifetime, Build and BuildWithOptions for singletons, direct and through modules), asked again afterwards; build doors. Wave 18: three directed sets (scope initializers constructing disposable services; top-level scope, child, grandchild) lead the fault enumeration in every tier.",
 "C16": "Also: application-scope request contexts, a second differently configured ScopeMiddleware/Handle instance per case, and the scope-closed-at-unwind clause (evaluated at the moment the request leaves the middleware chain, aborts included). Exit path 'initfail' (a scope initializer of the real provider fails for the request); nil values of the handler options that are documented as 'the default is used'; fallback handlers (gin NoRoute/NoMethod, echo RouteNotFound, fiber catch-all) behind an engine-wide middleware; requests rejected by a configured middleware; one *http.Request dispatched several times; the middleware installed on two levels. Wave 16: two providers: nested middlewares and blue/green providers of one collection (net/http, chi, gin, echo). Wave 17: the request's scope closed (directly / by cancelling the request context) between the scope middleware and Handle, controllers of every lifetime (net/http, chi, gin, echo).",
 "C17": "Also: result-object fields with both name and group (must be rejected), RemoveKeyed with nil / empty-string / non-string keys. RemoveKeyed with int keys equal to group positions; registrations without a result (initializers) with ordinary services before them and ToSlice/Count compared across every Build; Builds refused in the middle of a sequence, issued for real under a watchdog. Wave 16: refused-build sequences with optional captive dependencies, judged by the model of package core when the fresh twin fails too. Wave 18: in the directed refused-build sequences a Build that succeeds where the reference refuses is compared with a fresh twin holding exactly the surviving registrations; Build-ok / removal only / Build sequences.",
 "C18": "Also: reserved types in every derived registration form (As, multi-return, result-object fields incl. grouped), concurrent sections, nil-context children inheriting cancellation and deadline. Built-in injectables requested through fields tagged optional. The three Build doors (Build / BuildWithContext cancelled or timed out after start-up / BuildWithOptions) and the root scope's context; built-ins as embedded parameter-object fields; the context installed by an upstream middleware is what the request's scope is created with (five integrations); the collection built again while the first provider is in use. Wave 16: a context that carries a scope of another provider passed to CreateScope.",
 "C19": "Also: deferred adds in batches (removes / clears while pending, one completing DetectCycles), concurrent sort-vs-mutation. One provider value registered again after RemoveProvider of a neighbour. Wave 16: a bystander graph sharing the main graph's provider values, never touched, compared after every step. Wave 17: identities that share type and key and differ in the group alone.",
 "C20": "Also: caller slice reuse, RemoveKeyed key values that are not names, the same module tree applied to several fresh collections concurrently. The ModuleError chain is also walked with Unwrap; grouping closures that annotate their children's error with their own error type (annotation must stay reachable). Modules with the empty name; nodes whose closures annotate errors. Wave 15: every generated tree also applied to a nil Collection.",
}

def main():
    props = [json.loads(l) for l in open(os.path.join(VERIF, "properties.jsonl")) if l.strip()]
    ids = [p["id"] for p in props]
    checks = []
    for pid in ids:
        if pid not in CHECKS:
            continue
        c = CHECKS[pid]
        checks.append({
            "property_id": pid,
            "quick_cmd": f"./check {pid} quick",
            "thorough_cmd": f"./check {pid} thorough",
            "evidence_file": f"/verif/evidence/{pid}.json",
            "replay_cmd_template": "./check replay {path}",
            "engine": c["engine"],
            "level_claimed": {"category": c["level"], "text": c["text"] + " " + EXTRA.get(pid, ""), "design_ref": c["ref"]},
            "level_note": c["note"],
            "technique": c["technique"],
        })
    na = []
    for pid in ids:
        if pid in CHECKS:
            continue
        na.append({"property_id": pid, "reason": NOT_YET.get(pid, "check under construction in this build session (runtime monitoring applies; see DESIGN.md §3); not claimed until its monitor is silent on the unchanged tree")})
    hooks_commits = ["12c04c2fa9e6205fb4fde02420c5642da2fa3750"]
    man = {
        "version": 1,
        "setup_cmd": "./check build",
        "hooks": {
            "guard": "verif",
            "enable": "go build -tags verif (what ./check does): godi then calls verifYield(point) at 19 places between its critical sections in scope.go / provider.go (never with a lock held) and exports SetVerifHook; harness/rt/yield_verif.go routes the points to the running case (Where = \"yield:<point>\": gates of the controlled schedules can park an operation at an internal point) and to an optional schedule perturbation (SetNoise). Without the tag verifYield is an empty function (verif_hooks_off.go) and SetVerifHook does not exist",
            "baseline_off_cmd": BASELINE_OFF,
            "source_commits": hooks_commits,
            "add_only": True,
        },
        "engines": ENGINES,
        "checks": checks,
        "not_applicable": na,
        "notes": "Technique family: runtime monitoring and sanitizers. ./check <ID> <tier> rebuilds the worker (plain and, for the concurrency properties, -race) from /repo's working tree, fans shards out over child processes, and writes evidence/<ID>.json. Genuine defects repaired by fix: commits and the open ones are listed in KNOWN_FINDINGS.txt.",
    }
    out = os.path.join(VERIF, "MANIFEST.json")
    json.dump(man, open(out, "w"), indent=1)
    open(out, "a").write("\n")
    try:
        import jsonschema
        jsonschema.validate(man, json.load(open("/root/.vp/MANIFEST.schema.json")))
        print("MANIFEST.json valid;", len(checks), "checks,", len(na), "not_applicable")
    except ImportError:
        print("jsonschema not available; wrote MANIFEST.json")

if __name__ == "__main__":
    main()
