#!/usr/bin/env python3
"""Regenerates /verif/MANIFEST.json from the table below (single source of truth).
Run: python3 tools/mkmanifest.py   — validates against /root/.vp/MANIFEST.schema.json when jsonschema is available."""
import json, os, subprocess, sys

VERIF = os.path.dirname(os.path.dirname(os.path.abspath(__file__)))

BASELINE_OFF = ("for m in . ./chi ./echo ./fiber ./gin ./http; do (cd /repo/$m && GOFLAGS=-mod=mod GOPROXY=off "
                "go test -vet=off -count=1 -timeout 25m ./...) || exit 1; done")

# id -> (engine, level, technique, text, note, design_ref)
CHECKS = {}

def chk(pid, engine, level, technique, text, note, ref):
    CHECKS[pid] = dict(engine=engine, level=level, technique=technique, text=text, note=note, ref=ref)

chk("C19", "graphx", "exploration",
    "runtime monitor: reference-model comparison after every step of enumerated/random operation sequences on the real internal/graph",
    "Every public query of the real DependencyGraph is compared with a map-of-lists reference digraph after every step of ALL operation "
    "sequences of length <=3 (quick) / <=4 (thorough) over a 52-op alphabet, plus seeded random sequences of length 30-200 over 12 node "
    "identities (types x keys x groups). Exploration is the right level: the graph is a sequential data structure whose state space is "
    "unbounded, so the small space is enumerated completely and the rest is sampled.",
    "Trusted: the reference digraph in harness/graphx/model.go; immediate adds only on graphs that passed the cycle check; depths only on acyclic graphs.",
    "DESIGN.md §3 C19")

NOT_YET = {}

ENGINES = [
    {"name": "graphx", "path": "harness/graphx", "serves_properties": ["C05", "C06", "C19"],
     "kind_free_text": "reference-digraph monitor over the real internal/graph package (exhaustive small graphs/sequences + seeded random)"},
    {"name": "core-exec", "path": "harness/{pool,rt,spec,exec,mon}", "serves_properties": ["C01", "C03", "C04", "C05", "C06", "C07", "C08", "C10", "C11", "C15", "C18"],
     "kind_free_text": "generated static constructor pool + event log + reference model of the documented container semantics; monitors are pure functions over the recorded events"},
    {"name": "registry-seq", "path": "harness/regx", "serves_properties": ["C17", "C20"],
     "kind_free_text": "operation-sequence monitor of Collection/modules against a reference registry"},
    {"name": "conc", "path": "harness/conc", "serves_properties": ["C02", "C09", "C12", "C13"],
     "kind_free_text": "-race worker: stress, controlled interleavings at user-code yield points, porcupine linearizability of recorded histories"},
    {"name": "leak", "path": "harness/leak", "serves_properties": ["C14"],
     "kind_free_text": "weak-pointer / goroutine / context accounting over create-use-close cycles"},
    {"name": "web", "path": "harness/web", "serves_properties": ["C16"],
     "kind_free_text": "request driver over the five integrations with a spy provider and recording services"},
]

def main():
    props = [json.loads(l) for l in open(os.path.join(VERIF, "properties.jsonl")) if l.strip()]
    ids = [p["id"] for p in props]
    checks = []
    for pid in ids:
        if pid not in CHECKS:
            continue
        c = CHECKS[pid]
        checks.append({
            "property_id": pid,
            "quick_cmd": f"./check {pid} quick",
            "thorough_cmd": f"./check {pid} thorough",
            "evidence_file": f"/verif/evidence/{pid}.json",
            "replay_cmd_template": "./check replay {path}",
            "engine": c["engine"],
            "level_claimed": {"category": c["level"], "text": c["text"], "design_ref": c["ref"]},
            "level_note": c["note"],
            "technique": c["technique"],
        })
    na = []
    for pid in ids:
        if pid in CHECKS:
            continue
        na.append({"property_id": pid, "reason": NOT_YET.get(pid, "check under construction in this build session (runtime monitoring applies; see DESIGN.md §3); not claimed until its monitor is silent on the unchanged tree")})
    hooks_commits = []
    man = {
        "version": 1,
        "setup_cmd": "./check build",
        "hooks": {
            "guard": "verif",
            "enable": "go build -tags verif (no hook is currently needed: every observation point is reachable from outside; the harness module path github.com/junioryono/godi/v4/verifh + replace => /repo gives access to internal/graph and internal/reflection)",
            "baseline_off_cmd": BASELINE_OFF,
            "source_commits": hooks_commits,
            "add_only": True,
        },
        "engines": ENGINES,
        "checks": checks,
        "not_applicable": na,
        "notes": "Technique family: runtime monitoring and sanitizers. ./check <ID> <tier> rebuilds the worker (plain and, for the concurrency properties, -race) from /repo's working tree, fans shards out over child processes, and writes evidence/<ID>.json. Genuine defects repaired by fix: commits and the open ones are listed in KNOWN_FINDINGS.txt.",
    }
    out = os.path.join(VERIF, "MANIFEST.json")
    json.dump(man, open(out, "w"), indent=1)
    open(out, "a").write("\n")
    try:
        import jsonschema
        jsonschema.validate(man, json.load(open("/root/.vp/MANIFEST.schema.json")))
        print("MANIFEST.json valid;", len(checks), "checks,", len(na), "not_applicable")
    except ImportError:
        print("jsonschema not available; wrote MANIFEST.json")

if __name__ == "__main__":
    main()
