#!/bin/bash
# tools/verify_mutant.sh <dir with MUTANT.patch + demo> : independent confirmation in a fresh worktree
# (compiles, existing suite passes with the change, demo passes without and fails with it).
set -u
SRC=$(readlink -f "$1"); ID=$(basename "$SRC")
WT=/tmp/vm/$ID
export GOFLAGS=-mod=mod GOPROXY=off
rm -rf "$WT"; git -C /repo worktree prune; git -C /repo worktree add -q --detach "$WT" HEAD || exit 2
cleanup() { git -C /repo worktree remove --force "$WT" 2>/dev/null; }
trap cleanup EXIT
DEMO=$(cd "$SRC" && find . -name 'zz_mutant_demo_test.go' | head -1)
[ -z "$DEMO" ] && { echo "no demo"; exit 2; }
DDIR=$(dirname "$DEMO")
cp "$SRC/$DEMO" "$WT/$DEMO"
echo "== demo on unchanged code (must pass)"
(cd "$WT/$DDIR" && go test -vet=off -count=1 -run 'ZZ|Mutant' . 2>&1 | tail -3)
echo "== apply patch"
git -C "$WT" apply "$SRC/MUTANT.patch" || { echo "PATCH DOES NOT APPLY"; exit 2; }
git -C "$WT" diff --stat | tail -3
echo "== existing suite with the change (demo moved aside)"
mv "$WT/$DEMO" "$WT/$DEMO.aside"
for m in . chi echo fiber gin http; do (cd "$WT/$m" && go test -vet=off -count=1 ./... 2>&1 | grep -v "^ok" | head -5); done
echo "(suite done)"
mv "$WT/$DEMO.aside" "$WT/$DEMO"
echo "== demo with the change (must fail)"
(cd "$WT/$DDIR" && go test -vet=off -count=1 -run 'ZZ|Mutant' . 2>&1 | tail -4)
