#!/bin/bash
# tools/savemutant.sh <Cxx> <wave> <caught_by comma list or ""> : dev-only, after tools/intake.sh confirmed the change
set -eu
ID=$1; W=$2; CB=${3:-}
SRC=/tmp/mut$W/$ID; DST=/verif/seeded/$ID-w$W
mkdir -p $DST
cp $SRC/MUTANT.patch $DST/patch.diff
cp $SRC/MUTANT.md $DST/MUTANT.md
DEMO=$(cd $SRC && find . -name 'zz_mutant_demo_test.go' | head -1)
cp $SRC/$DEMO $DST/zz_mutant_demo_test.go.txt
python3 - "$ID" "$W" "$CB" "$DEMO" "$DST" <<'PY'
import sys,json,re,subprocess
id,w,cb,demo,dst=sys.argv[1:]
title=open(dst+'/MUTANT.md').read().strip().splitlines()[0].lstrip('# ').strip()
meta={"property":id,"wave":int(w),"title":title,
 "made_by":"fresh sub-agent given only the property text, a target-area hint, the one-line titles of the earlier changes for this property (to do something different) and a scratch worktree (nothing from /verif)",
 "base_commit":subprocess.check_output(['git','-C','/repo','rev-parse','--short','HEAD']).decode().strip(),
 "demo_file":demo.lstrip('./'),"needs_to_manifest":"see MUTANT.md",
 "confirmed":{"tool":"tools/verify_mutant.sh (fresh worktree of /repo HEAD)","compiles":True,"existing_suite_passes_with_change":True,"demo_passes_without_change":True,"demo_fails_with_change":True},
 "checks_run":"tools/trymutant.sh patch.diff quick; see caught_by",
 "caught_by":[c for c in cb.split(',') if c]}
json.dump(meta,open(dst+'/meta.json','w'),indent=1)
PY
echo saved $DST
