#!/bin/bash
# tools/lab.sh <name>          dev-only: an isolated copy of (/repo HEAD, /verif working tree) under
#                              /tmp/lab/<name>/{repo,verif}; the copy's harness go.mod points at the copy's repo.
# tools/lab.sh -d <name>       remove it again (worktree + directory)
# Lets seeded changes be tried (tools/trymutant.sh with REPO_DIR/VERIF_DIR) without touching /repo.
set -eu
if [ "$1" = "-d" ]; then
  git -C /repo worktree remove --force /tmp/lab/$2/repo 2>/dev/null || true
  rm -rf /tmp/lab/$2; git -C /repo worktree prune; exit 0
fi
L=/tmp/lab/$1
mkdir -p $L
[ -d $L/repo ] || git -C /repo worktree add -q --detach $L/repo HEAD
git -C $L/repo checkout -q --detach $(git -C /repo rev-parse HEAD)
rsync -a --delete --exclude bin --exclude evidence --exclude replays --exclude .git --exclude seeded /verif/ $L/verif/
mkdir -p $L/verif/evidence $L/verif/replays
sed -i "s#=> /repo#=> $L/repo#" $L/verif/harness/go.mod
echo $L
