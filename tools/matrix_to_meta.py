#!/usr/bin/env python3
"""tools/matrix_to_meta.py [log]: folds the result of tools/matrix.sh (every seeded change x all 20 quick checks,
seed 1, /repo HEAD) into seeded/*/meta.json: `caught_by` becomes the list of checks that reported the change in the
matrix run (the at-intake observations are kept under `caught_by_at_intake`), `own_check_catches` is recomputed."""
import json, os, re, sys
root = os.path.dirname(os.path.dirname(os.path.abspath(__file__)))
logs = sys.argv[1:] or ["/tmp/matrix-full.log"]
cur, res = None, {}
import itertools
for line in itertools.chain.from_iterable(open(l) for l in logs):
    line = line.rstrip("\n")
    m = re.match(r"^##### (C\d\d-w\d+)$", line)
    if m:
        cur = m.group(1); res[cur] = {"det": {}, "other": [], "done": False}; continue
    m = re.match(r"^##### end (C\d\d-w\d+)$", line)
    if m:
        res[m.group(1)]["done"] = True; cur = None; continue
    if cur is None:
        continue
    m = re.match(r"^(C\d\d) DETECTED sig=(\S*)", line)
    if m:
        res[cur]["det"][m.group(1)] = m.group(2); continue
    if re.match(r"^(C\d\d) (broken|BUILD-FAILED)", line) or line.startswith("BUILD-FAILED") or "does not apply" in line or line.startswith("SKIPPED"):
        res[cur]["other"].append(line)
n = 0
for sid, r in sorted(res.items()):
    p = os.path.join(root, "seeded", sid, "meta.json")
    if not r["done"] or not os.path.exists(p):
        continue
    m = json.load(open(p))
    if m.get("status") or any(o.startswith("SKIPPED") for o in r["other"]):
        continue
    if r["other"]:
        print("ATTENTION", sid, r["other"]); continue
    old = m.get("caught_by", [])
    if "caught_by_at_intake" not in m:
        m["caught_by_at_intake"] = [c["check"] if isinstance(c, dict) else c for c in old]
        ex = {c["check"]: c.get("example_sigs", []) for c in old if isinstance(c, dict)}
        if ex:
            m["example_sigs_at_intake"] = ex
    m["caught_by"] = sorted(r["det"])
    m["first_sig"] = r["det"]
    m["own_check_catches"] = m["property"] in r["det"]
    m["matrix_run"] = "tools/matrix.sh: quick tier, VERIF_SEED=1, all 20 checks, patch applied to a worktree of /repo HEAD"
    json.dump(m, open(p, "w"), indent=1); open(p, "a").write("\n"); n += 1
    if not r["det"]:
        print("UNDETECTED", sid)
    elif not m["own_check_catches"]:
        print("not-own", sid, m["caught_by"])
print("updated", n)
