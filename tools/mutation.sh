#!/bin/bash
# tools/mutation.sh phase1 <njobs>      dev-only: source-level mutants (bin/gomut) of godi, filtered by the repository's own
#                                       test suite; survivors (compile + whole suite green) go to /tmp/mutation/survivors/*.diff
# tools/mutation.sh phase2 <list-file> [lab]  survivors x relevant checks (quick tier) in lab <lab> (default M0); results in /tmp/mutation/phase2-<lab>.log
set -u
export GOFLAGS=-mod=mod GOPROXY=off
FILES="scope.go provider.go collection.go descriptor.go module.go errors.go lifetime.go internal/graph/graph.go internal/reflection/analyzer.go internal/reflection/builders.go internal/reflection/helpers.go gin/gin.go echo/echo.go fiber/fiber.go chi/chi.go http/http.go"
M=/tmp/mutation
mkdir -p $M/survivors $M/work
case "$1" in
phase1)
  NJ=${2:-8}
  : > $M/todo.txt
  for f in $FILES; do n=$(/verif/bin/gomut -count /repo/$f); for k in $(seq 0 $((n-1))); do echo "$f $k" >> $M/todo.txt; done; done
  for j in $(seq 1 $NJ); do
    W=$M/work/w$j
    [ -d $W ] || git -C /repo worktree add -q --detach $W HEAD
    git -C $W reset -q --hard; git -C $W checkout -q --detach $(git -C /repo rev-parse HEAD)
    (
      awk -v j=$j -v n=$NJ 'NR%n==j%n' $M/todo.txt | while read f k; do
        id=$(echo $f | tr '/.' '__')-$k
        desc=$(/verif/bin/gomut -apply $k /repo/$f 2>&1 >$W/$f.mut) || { echo "$id GEN-FAILED" >> $M/phase1-$j.log; continue; }
        mv $W/$f.mut $W/$f
        gofmt -w $W/$f 2>/dev/null
        mods=". chi echo fiber gin http"
        case $f in gin/*|echo/*|fiber/*|chi/*|http/*) mods=$(dirname $f);; esac
        res=survived
        (cd $W && go build ./... >/dev/null 2>&1) || res=nobuild
        if [ $res = survived ]; then
          for m in $mods; do
            (cd $W/$m && timeout 180 go test -vet=off -count=1 -timeout 150s ./... >/dev/null 2>&1) || { res=killed-by-suite; break; }
          done
        fi
        if [ $res = survived ]; then git -C $W diff > $M/survivors/$id.diff; echo "$desc" > $M/survivors/$id.txt; fi
        echo "$id $res $desc" >> $M/phase1-$j.log
        git -C $W checkout -q -- .
      done
      echo "WORKER-DONE" >> $M/phase1-$j.log
    ) &
  done
  wait
  echo PHASE1-DONE > $M/phase1.done
  ;;
phase2)
  LIST=$2; LAB=${3:-M0}; LOG=$M/phase2-$LAB.log
  /verif/tools/lab.sh $LAB >/dev/null
  while read id; do
    grep -q "^##### $id\$" $LOG 2>/dev/null && continue
    f=$(echo $id | sed 's/-[0-9]*$//')
    case $f in
      scope_go|provider_go) checks="C01 C02 C03 C09 C10 C11 C12 C13 C14 C15 C18";;
      collection_go|descriptor_go|module_go|lifetime_go) checks="C01 C04 C05 C06 C07 C08 C15 C17 C18 C20";;
      internal_graph_graph_go) checks="C05 C06 C08 C19";;
      internal_reflection_*) checks="C01 C03 C04 C07 C08 C09 C15";;
      errors_go) checks="C05 C07 C12 C13 C15 C17 C20";;
      *) checks="C16";;
    esac
    { echo "##### $id"; cat $M/survivors/$id.txt;
      REPO_DIR=/tmp/lab/$LAB/repo VERIF_DIR=/tmp/lab/$LAB/verif /verif/tools/trymutant.sh $M/survivors/$id.diff quick $checks 2>&1 | grep -E "DETECTED|broken|BUILD-FAILED|does not apply" | cut -c1-200;
      echo "##### end $id"; } >> $LOG
  done < $LIST
  echo PHASE2-DONE >> $LOG
  ;;
esac
