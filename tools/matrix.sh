#!/bin/bash
# tools/matrix.sh [pattern]   dev-only: every seeded change (seeded/<pattern>*) x all 20 checks, quick tier, in lab B.
# Output: /tmp/matrix-full.log (one block per change). Run with nice; takes hours.
set -u
PAT=${1:-}
/verif/tools/lab.sh B >/dev/null
for d in /verif/seeded/${PAT}*/; do
  id=$(basename $d)
  grep -q "^##### $id\$" /tmp/matrix-full.log 2>/dev/null && continue
  st=$(python3 -c "import json;print(json.load(open('$d/meta.json')).get('status',''))")
  { echo "##### $id"; 
    if [ -n "$st" ]; then echo "SKIPPED $st"; else
      REPO_DIR=/tmp/lab/B/repo VERIF_DIR=/tmp/lab/B/verif /verif/tools/trymutant.sh $d/patch.diff quick 2>&1 | grep -E "DETECTED|silent|broken|BUILD-FAILED|does not apply" | cut -c1-400; fi
    echo "##### end $id"; } >> /tmp/matrix-full.log
done
echo MATRIX-DONE >> /tmp/matrix-full.log
