#!/bin/bash
# tools/matrix.sh <lab> [k n]   dev-only: every seeded change (the k-th of every n, default all) x all 20 checks,
# quick tier, in lab <lab> (a tools/lab.sh copy of /repo HEAD and /verif). Output: /tmp/matrix-<lab>.log (one block
# per change; blocks already present are skipped). FILTER=<regexp on the id> restricts the set. tools/matrix_to_meta.py folds the logs into seeded/*/meta.json.
set -u
LAB=${1:-B}; K=${2:-0}; N=${3:-1}
LOG=/tmp/matrix-$LAB.log
/verif/tools/lab.sh $LAB >/dev/null
i=0
for d in /verif/seeded/*/; do
  i=$((i+1)); [ $((i % N)) -eq $K ] || continue
  id=$(basename $d)
  if [ -n "${FILTER:-}" ] && ! echo "$id" | grep -qE -- "$FILTER"; then continue; fi
  grep -q "^##### $id\$" $LOG 2>/dev/null && continue
  st=$(python3 -c "import json;print(json.load(open('$d/meta.json')).get('status',''))")
  { echo "##### $id";
    if [ -n "$st" ]; then echo "SKIPPED $st"; else
      REPO_DIR=/tmp/lab/$LAB/repo VERIF_DIR=/tmp/lab/$LAB/verif /verif/tools/trymutant.sh $d/patch.diff quick 2>&1 | grep -E "DETECTED|silent|broken|BUILD-FAILED|does not apply" | cut -c1-400; fi
    echo "##### end $id"; } >> $LOG
done
echo MATRIX-DONE >> $LOG
