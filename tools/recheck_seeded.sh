#!/bin/bash
# tools/recheck_seeded.sh [lab] [ids...]   dev-only: every seeded change against /repo HEAD (lab copy): the patch applies,
# the tree compiles with it, the demonstration passes without it and fails with it. (The existing
# suite is not re-run here: tools/verify_mutant.sh does that at intake and after every rebase.)
# Output: one line per change in /tmp/recheck-seeded.log
set -u
LAB=${1:-R}; shift || true
export GOFLAGS=-mod=mod GOPROXY=off
/verif/tools/lab.sh $LAB >/dev/null
R=/tmp/lab/$LAB/repo
IDS=${*:-$(ls /verif/seeded)}
for id in $IDS; do
  d=/verif/seeded/$id
  st=$(python3 -c "import json;print(json.load(open('$d/meta.json')).get('status',''))")
  if [ -n "$st" ]; then echo "$id SKIPPED ($st)" >> /tmp/recheck-seeded.log; continue; fi
  git -C $R checkout -q -- . ; git -C $R clean -fdq
  demo=$(python3 -c "import json;print(json.load(open('$d/meta.json'))['demo_file'])")
  src=$d/zz_mutant_demo_test.go.txt; [ -f $src ] || src=$(ls $d/*zz_mutant_demo_test.go.txt | head -1)
  mkdir -p $R/$(dirname $demo); cp $src $R/$demo
  ddir=$(dirname $demo)
  race=""; grep -qi "race" $d/meta.json && grep -q "demo_note" $d/meta.json && race="-race"
  pre=$(cd $R/$ddir && timeout 300 go test $race -vet=off -count=1 -run 'ZZ|Mutant' . 2>&1 | tail -1)
  if ! git -C $R apply $d/patch.diff 2>/dev/null; then echo "$id DOES-NOT-APPLY" >> /tmp/recheck-seeded.log; continue; fi
  b=ok
  for m in . chi echo fiber gin http; do (cd $R/$m && go build ./... >/dev/null 2>&1) || b="BUILD-FAILS($m)"; done
  post=$(cd $R/$ddir && timeout 300 go test $race -vet=off -count=1 -run 'ZZ|Mutant' . 2>&1 | tail -1)
  v=OK
  case "$pre" in ok*) ;; *) v="DEMO-FAILS-WITHOUT-CHANGE";; esac
  case "$post" in FAIL*) ;; *) [ $v = OK ] && v="DEMO-PASSES-WITH-CHANGE";; esac
  [ "$b" != ok ] && v=$b
  echo "$id $v | pre: ${pre:0:60} | post: ${post:0:60}" >> /tmp/recheck-seeded.log
done
git -C $R checkout -q -- . ; git -C $R clean -fdq
echo RECHECK-DONE >> /tmp/recheck-seeded.log
