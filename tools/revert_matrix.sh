#!/bin/bash
# tools/revert_matrix.sh   dev-only: every "fix:" commit of /repo reverted on top of HEAD (in lab A) must be
# reported by the check(s) of the property/properties KNOWN_FINDINGS.txt lists for it.
set -u
LAB=${1:-A}
/verif/tools/lab.sh $LAB >/dev/null
R=/tmp/lab/$LAB/repo
mkdir -p /tmp/reverts
for h in $(git -C /repo log --format=%h --grep='^fix:' --reverse); do
  props=$(grep "^fixed: property=" /verif/KNOWN_FINDINGS.txt | grep " $h " | sed 's/fixed: property=\(C[0-9]*\).*/\1/' | sort -u | tr '\n' ' ')
  git -C $R reset -q --hard; git -C $R clean -fdq
  if ! git -C $R revert --no-commit $h >/dev/null 2>&1; then echo "$h [$props] REVERT-CONFLICT"; git -C $R revert --abort 2>/dev/null; git -C $R reset -q --hard; continue; fi
  git -C $R diff HEAD > /tmp/reverts/$h.diff
  git -C $R revert --abort 2>/dev/null; git -C $R reset -q --hard
  if ! (cd $R && GOFLAGS=-mod=mod GOPROXY=off go build ./... 2>/dev/null); then :; fi
  res=$(REPO_DIR=$R VERIF_DIR=/tmp/lab/$LAB/verif /verif/tools/trymutant.sh /tmp/reverts/$h.diff quick $props 2>&1 | grep -E "DETECTED|silent|broken|BUILD-FAILED" | cut -c1-110 | tr '\n' ';')
  echo "$h [$props] $res"
done
