#!/bin/bash
# tools/intake.sh <Cxx> <wave> [checks...]   dev-only: verify /tmp/mut<wave>/<Cxx> independently, run the
# given checks (default: own check) against it in lab A, print results. Does not write seeded/.
set -u
ID=$1; W=$2; shift; shift
CHECKS=${*:-$ID}
SRC=/tmp/mut$W/$ID
/verif/tools/verify_mutant.sh $SRC 2>&1 | tail -25
[ -d /tmp/lab/A ] || /verif/tools/lab.sh A
/verif/tools/lab.sh A >/dev/null
REPO_DIR=/tmp/lab/A/repo VERIF_DIR=/tmp/lab/A/verif /verif/tools/trymutant.sh $SRC/MUTANT.patch quick $CHECKS
