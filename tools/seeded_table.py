#!/usr/bin/env python3
"""Prints the markdown table of DESIGN.md §8.4 from /verif/seeded/*/meta.json."""
import json, glob, os
rows = []
for p in sorted(glob.glob(os.path.join(os.path.dirname(os.path.dirname(os.path.abspath(__file__))), "seeded", "*", "meta.json"))):
    m = json.load(open(p))
    d = os.path.basename(os.path.dirname(p))
    cb = [c["check"] if isinstance(c, dict) else c for c in m.get("caught_by", [])]
    if m.get("status"):
        caught, own = "(" + m["status"] + ")", "n/a"
    else:
        caught = ", ".join(cb) or "—"
        own = "yes" if m["property"] in cb else "NO"
    title = m["title"].replace("|", "/")
    if len(title) > 110:
        title = title[:107] + "…"
    rows.append(f"| {d} | {title} | {own} | {caught} |")
print("| seeded change | what it does | reported by its own property's check | reported by (quick tier, seed 1) |")
print("|---|---|---|---|")
print("\n".join(rows))
