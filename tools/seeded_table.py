#!/usr/bin/env python3
"""Prints the markdown table of DESIGN.md §8.4 from /verif/seeded/*/meta.json."""
import json, glob, os
rows = []
for p in sorted(glob.glob(os.path.join(os.path.dirname(os.path.dirname(os.path.abspath(__file__))), "seeded", "*", "meta.json"))):
    m = json.load(open(p))
    d = os.path.basename(os.path.dirname(p))
    caught = ", ".join(c["check"] for c in m.get("caught_by", [])) or "—"
    own = "yes" if m.get("own_check_catches") else "NO"
    title = m["title"].replace("|", "/")
    if len(title) > 110:
        title = title[:107] + "…"
    rows.append(f"| {d} | {title} | {own} | {caught} |")
print("| seeded change | what it does | caught by its own property's check | caught by (quick tier, seed 1) |")
print("|---|---|---|---|")
print("\n".join(rows))
