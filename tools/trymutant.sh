#!/bin/bash
# tools/trymutant.sh <patch-file> [tier] [checks...]
# Applies a seeded change to /repo (or $REPO_DIR, with $VERIF_DIR a tools/lab.sh copy), runs the given checks (default: all 20, quick), prints one
# line per check (DETECTED / silent / broken) and ALWAYS restores /repo afterwards.
set -u
PATCH=$(readlink -f "$1"); TIER=${2:-quick}; shift; shift || true
CHECKS=${*:-C01 C02 C03 C04 C05 C06 C07 C08 C09 C10 C11 C12 C13 C14 C15 C16 C17 C18 C19 C20}
REPO=${REPO_DIR:-/repo}
cd $REPO || exit 2
if [ -n "$(git status --porcelain)" ]; then echo "/repo is dirty; refusing"; exit 2; fi
restore() { git -C $REPO checkout -q -- . ; git -C $REPO clean -fdq; }
trap restore EXIT
git apply "$PATCH" || { echo "patch does not apply"; exit 2; }
cd "${VERIF_DIR:-/verif}"
OUT=$(mktemp -d /tmp/trymut.XXXXXX)
./check build > $OUT/build.log 2>&1 || { echo "BUILD-FAILED (harness does not compile against the changed tree)"; tail -5 $OUT/build.log; exit 2; }
for c in $CHECKS; do
  bin/vcheck -verif "$PWD" -prop $c -tier $TIER > $OUT/$c.log 2>&1; rc=$?
  sigs=$(grep -o "sig=[^ ]*" $OUT/$c.log | sort -u | head -4 | tr '\n' ' ')
  case $rc in
    0) echo "$c silent";;
    1) echo "$c DETECTED $sigs";;
    *) echo "$c broken(rc=$rc) $(grep -m1 -E 'BUILD-FAILED|HARNESS|NO-OBS' $OUT/$c.log)";;
  esac
done
echo "logs: $OUT"
