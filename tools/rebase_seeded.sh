#!/bin/bash
# tools/rebase_seeded.sh <tag>   dev-only: after a commit in /repo, re-apply every seeded patch that no longer
# applies with fuzz on top of /repo HEAD (in lab A's repo copy), check that the changed lines are the same,
# re-confirm with tools/verify_mutant.sh, keep the old diff as patch.before-<tag>.diff.
set -u
TAG=$1
/verif/tools/lab.sh A >/dev/null
R=/tmp/lab/A/repo
for d in /verif/seeded/*/; do
  id=$(basename $d)
  git -C /repo apply --check $d/patch.diff 2>/dev/null && continue
  git -C $R checkout -q -- . ; git -C $R clean -fdq
  if ! (cd $R && patch -p1 --fuzz=3 -s < $d/patch.diff >/dev/null 2>&1); then echo "$id FUZZ-FAILED"; (cd $R && find . -name '*.rej' -delete -o -name '*.orig' -delete); git -C $R checkout -q -- .; continue; fi
  (cd $R && find . -name '*.orig' -delete)
  git -C $R diff > /tmp/rebased-$id.diff
  git -C $R checkout -q -- . ; git -C $R clean -fdq
  a=$(grep -E '^[+-][^+-]' $d/patch.diff | sort | md5sum | cut -c1-8); b=$(grep -E '^[+-][^+-]' /tmp/rebased-$id.diff | sort | md5sum | cut -c1-8)
  if [ "$a" != "$b" ]; then echo "$id CHANGE-LINES-DIFFER"; continue; fi
  m=/tmp/mutr/$id; rm -rf $m; mkdir -p $m
  cp /tmp/rebased-$id.diff $m/MUTANT.patch
  demo=$(python3 -c "import json;print(json.load(open('$d/meta.json'))['demo_file'])")
  mkdir -p $m/$(dirname $demo); cp $d/zz_mutant_demo_test.go.txt $m/$demo
  out=$(/verif/tools/verify_mutant.sh $m 2>&1)
  okpass=$(echo "$out" | sed -n '/demo on unchanged/,/apply patch/p' | grep -c "^ok")
  fail=$(echo "$out" | sed -n '/demo with the change/,$p' | grep -c "^FAIL")
  suitebad=$(echo "$out" | sed -n '/existing suite/,/suite done/p' | grep -c "FAIL")
  if [ "$okpass" -ge 1 ] && [ "$fail" -ge 1 ] && [ "$suitebad" -eq 0 ]; then
    cp $d/patch.diff $d/patch.before-$TAG.diff; cp /tmp/rebased-$id.diff $d/patch.diff
    python3 - "$d" "$TAG" <<'PY'
import json,sys
p=sys.argv[1]+'/meta.json'; m=json.load(open(p))
m['base_commit']=sys.argv[2]
m['rebased']=(m.get('rebased','')+'; ' if m.get('rebased') else '')+f'same change re-applied on top of /repo {sys.argv[2]} (context lines moved; previous diff kept as patch.before-{sys.argv[2]}.diff) and re-confirmed with tools/verify_mutant.sh'
json.dump(m,open(p,'w'),indent=1)
PY
    echo "$id rebased+verified"
  else
    echo "$id VERIFY-FAILED pass=$okpass fail=$fail suitebad=$suitebad"; echo "$out" | tail -12 > /tmp/rebase-$id.log
  fi
done
